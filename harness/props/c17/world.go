package c17

import (
	"bytes"
	"encoding/json"
	"fmt"
	"path/filepath"
	"sort"
	"strings"

	"github.com/MichaelMure/git-bug/cache"
	"github.com/MichaelMure/git-bug/entities/bug"
	"github.com/MichaelMure/git-bug/entities/identity"
	"github.com/MichaelMure/git-bug/entity"
	"github.com/MichaelMure/git-bug/repository"
	"github.com/MichaelMure/git-bug/verifshim/vctl"
	"github.com/MichaelMure/git-bug/verifshim/vtime"

	"verifharness/world"
)

// defaultRepoName is the name under which MultiRepoCache.RegisterDefaultRepository registers.
const defaultRepoName = "__default"

var (
	pngBytes  = []byte("\x89PNG\r\n\x1a\n\x00\x00\x00\rIHDR\x00\x00\x00\x01\x00\x00\x00\x01\x08\x06\x00\x00\x00\x1f\x15\xc4\x89")
	gifBytes  = []byte("GIF89a\x01\x00\x01\x00\x80\x00\x00\x00\x00\x00\xff\xff\xff!\xf9\x04\x01\x00\x00\x00\x00,\x00\x00\x00\x00\x01\x00\x01\x00\x00\x02\x02D\x01\x00;")
	jpegBytes = []byte("\xff\xd8\xff\xe0\x00\x10JFIF\x00\x01\x01\x00\x00\x01\x00\x01\x00\x00\xff\xd9")
)

// Meta is everything about the initial world the catalogue needs.
type Meta struct {
	User      string   `json:"user"`  // identity selected as the repository's user (attached by the middleware)
	Other     string   `json:"other"` // author of everything that exists before the request
	Bugs      []string `json:"bugs"`
	Target    string   `json:"target"` // open bug with a second comment and label "existing"
	Closed    string   `json:"closed"`
	Short     string   `json:"short"`     // shortest prefix that only Target has
	Ambiguous string   `json:"ambiguous"` // non-empty prefix shared by two bugs
	NoMatch   string   `json:"nomatch"`
	CidFull   string   `json:"cid_full"`   // second comment of Target
	CidShort  string   `json:"cid_short"`  // shortest unique prefix of CidFull
	CidCreate string   `json:"cid_create"` // first comment of Target
	CommentOp string   `json:"comment_op"` // operation id of Target's second comment
	CreateOp  string   `json:"create_op"`  // operation id of Target's create operation
	CidOther  string   `json:"cid_other"`  // first comment of Closed
	CidAmbig  string   `json:"cid_ambig"`  // prefix shared by two comments (may be empty string if none)
	CidSameBug  string `json:"cid_same_bug"`  // longest prefix shared by two comments of Target
	CidCrossBug string `json:"cid_cross_bug"` // longest prefix shared by comments of two different bugs
	// the population, for the independent resolution of prefixes
	BugInfos []BugInfo     `json:"bug_infos"`
	Comments []CommentInfo `json:"comments"`
	H1        string   `json:"h1"`
	H2        string   `json:"h2"`
	HMissing  string   `json:"hmissing"`
}

// BugInfo is what the reference needs to know about a bug of the initial world.
type BugInfo struct {
	Id     string   `json:"id"`
	Title  string   `json:"title"`
	Labels []string `json:"labels"`
	Closed bool     `json:"closed"`
}

// CommentInfo is one comment of the initial world: its combined id, its bug, the id of the
// operation that created it.
type CommentInfo struct {
	Cid string `json:"cid"`
	Bug string `json:"bug"`
	Op  string `json:"op"`
}

// resolveBug is the independent resolution of a bug prefix: every bug whose id starts with it.
func (m *Meta) resolveBug(prefix string) []BugInfo {
	var out []BugInfo
	for _, b := range m.BugInfos {
		if strings.HasPrefix(b.Id, prefix) {
			out = append(out, b)
		}
	}
	return out
}

// resolveComment: every comment whose combined id starts with the prefix.
func (m *Meta) resolveComment(prefix string) []CommentInfo {
	var out []CommentInfo
	for _, c := range m.Comments {
		if strings.HasPrefix(c.Cid, prefix) {
			out = append(out, c)
		}
	}
	return out
}

func lcp(a, b string) string {
	i := 0
	for i < len(a) && i < len(b) && a[i] == b[i] {
		i++
	}
	return a[:i]
}

// Text with characters the documented clean-up keeps: U+00A0, U+202F, U+3000 (spaces that are
// not ASCII), U+200D inside an emoji family, U+200C between Persian letters, U+00AD soft hyphen,
// U+2028 line separator, U+E000 private use, U+FEFF in the middle.
const (
	keptOneLine       = "Prix\u00a0: 10\u202f€\u3000ok 👨\u200d👩\u200d👧 می\u200cخواهم co\u00adop a\u2028b \ue000 x\ufeffy"
	keptMultiLine     = "Prix\u00a0: 10\u202f€\r\nligne 2\ttab\u3000ok 👨\u200d👩\u200d👧\nمی\u200cخواهم co\u00adop a\u2028b\u2029c \ue000 x\ufeffy"
	keptExistingLabel = "à\u00a0garder"
)

func gitDir(dir string) string { return filepath.Join(dir, "repo", ".git") }

// buildWorld creates the repository every case starts from (then kept as a template).
func buildWorld(dir string) (*Meta, error) {
	world.IsolateEnv(dir)
	vctl.SetActor("setup")
	repo, err := repository.InitGoGitRepo(filepath.Join(dir, "repo"), world.Namespace)
	if err != nil {
		return nil, err
	}
	defer repo.Close()
	mk := func(name string) (*identity.Identity, error) {
		id, err := identity.NewIdentity(repo, name, name+"@example.org")
		if err != nil {
			return nil, err
		}
		return id, id.Commit(repo)
	}
	u, err := mk("user")
	if err != nil {
		return nil, err
	}
	v, err := mk("other")
	if err != nil {
		return nil, err
	}
	if err := identity.SetUserIdentity(repo, u); err != nil {
		return nil, err
	}
	m := &Meta{User: u.Id().String(), Other: v.Id().String()}

	h1, err := repo.StoreData(pngBytes)
	if err != nil {
		return nil, err
	}
	h2, err := repo.StoreData(gifBytes)
	if err != nil {
		return nil, err
	}
	m.H1, m.H2 = h1.String(), h2.String()
	m.HMissing = "0123456789abcdef0123456789abcdef01234567"

	now := func() int64 { return vtime.Now().Unix() }
	// target bug
	tb, createOp, err := bug.Create(v, now(), "target bug", "first message", nil, nil)
	if err != nil {
		return nil, err
	}
	_, commentOp, err := bug.AddComment(tb, v, now(), "second comment", nil, nil)
	if err != nil {
		return nil, err
	}
	_, thirdOp, err := bug.AddComment(tb, v, now(), "third comment", nil, nil)
	if err != nil {
		return nil, err
	}
	if _, _, err := bug.ChangeLabels(tb, v, now(), []string{"existing", keptExistingLabel}, nil, nil); err != nil {
		return nil, err
	}
	if err := tb.Commit(repo); err != nil {
		return nil, err
	}
	m.Target = tb.Id().String()
	m.CidFull = entity.CombineIds(tb.Id(), commentOp.Id()).String()
	m.CidCreate = entity.CombineIds(tb.Id(), createOp.Id()).String()
	m.CommentOp, m.CreateOp = commentOp.Id().String(), createOp.Id().String()
	m.BugInfos = append(m.BugInfos, BugInfo{Id: m.Target, Title: "target bug", Labels: []string{"existing", keptExistingLabel}})
	for _, op := range []entity.Id{createOp.Id(), commentOp.Id(), thirdOp.Id()} {
		m.Comments = append(m.Comments, CommentInfo{Cid: entity.CombineIds(tb.Id(), op).String(), Bug: m.Target, Op: op.String()})
	}
	// closed bug
	cb, cOp, err := bug.Create(v, now(), "closed bug", "it is closed", nil, nil)
	if err != nil {
		return nil, err
	}
	if _, err := bug.Close(cb, v, now(), nil); err != nil {
		return nil, err
	}
	if err := cb.Commit(repo); err != nil {
		return nil, err
	}
	m.Closed = cb.Id().String()
	m.CidOther = entity.CombineIds(cb.Id(), cOp.Id()).String()
	m.BugInfos = append(m.BugInfos, BugInfo{Id: m.Closed, Title: "closed bug", Closed: true})
	m.Comments = append(m.Comments, CommentInfo{Cid: m.CidOther, Bug: m.Closed, Op: cOp.Id().String()})
	m.Bugs = []string{m.Target, m.Closed}
	cids := []string{m.CidFull, m.CidCreate, m.CidOther}
	// fillers until two bugs share a first character
	for i := 0; i < 40; i++ {
		if p := sharedPrefix(m.Bugs); p != "" {
			m.Ambiguous = p
			break
		}
		fb, fOp, err := bug.Create(v, now(), fmt.Sprintf("filler %d", i), "filler", nil, nil)
		if err != nil {
			return nil, err
		}
		if err := fb.Commit(repo); err != nil {
			return nil, err
		}
		m.Bugs = append(m.Bugs, fb.Id().String())
		cids = append(cids, entity.CombineIds(fb.Id(), fOp.Id()).String())
		m.BugInfos = append(m.BugInfos, BugInfo{Id: fb.Id().String(), Title: fmt.Sprintf("filler %d", i)})
		m.Comments = append(m.Comments, CommentInfo{Cid: entity.CombineIds(fb.Id(), fOp.Id()).String(), Bug: fb.Id().String(), Op: fOp.Id().String()})
	}
	if m.Ambiguous == "" {
		return nil, fmt.Errorf("no ambiguous prefix among %d bugs", len(m.Bugs))
	}
	m.Short = uniquePrefix(m.Target, m.Bugs, 1)
	cids = nil
	for _, c := range m.Comments {
		cids = append(cids, c.Cid)
	}
	m.CidShort = uniquePrefix(m.CidFull, cids, 1)
	m.CidAmbig = sharedPrefix(cids)
	for i, a := range m.Comments {
		for _, b := range m.Comments[i+1:] {
			p := lcp(a.Cid, b.Cid)
			if a.Bug == m.Target && b.Bug == m.Target && len(p) > len(m.CidSameBug) {
				m.CidSameBug = p
			}
			if a.Bug != b.Bug && len(p) > len(m.CidCrossBug) {
				m.CidCrossBug = p
			}
		}
	}
	if m.CidSameBug == "" || m.CidCrossBug == "" {
		return nil, fmt.Errorf("the population has no comment prefix shared within a bug (%q) or across bugs (%q)", m.CidSameBug, m.CidCrossBug)
	}
	for _, c := range []string{"0000000", "1111111", "2222222", "3333333", "4444444", "5555555", "6666666", "7777777", "8888888", "9999999", "aaaaaaa", "bbbbbbb", "ccccccc", "ddddddd", "eeeeeee", "fffffff", "0101010", "1010101"} {
		hit := false
		for _, b := range append(append([]string{}, m.Bugs...), cids...) {
			if strings.HasPrefix(b, c[:1]) {
				hit = true
			}
		}
		if !hit {
			m.NoMatch = c
			break
		}
	}
	if m.NoMatch == "" {
		m.NoMatch = "0f0f0f0f0f"
		for _, b := range append(append([]string{}, m.Bugs...), cids...) {
			if strings.HasPrefix(b, m.NoMatch) {
				return nil, fmt.Errorf("cannot find a prefix that matches nothing")
			}
		}
	}
	sort.Strings(m.Bugs)

	// build and persist the cache once, as a previous git-bug run would have
	rc, events := cache.NewRepoCache(repo)
	for e := range events {
		if e.Err != nil {
			return nil, fmt.Errorf("cache build: %w", e.Err)
		}
	}
	if err := rc.Close(); err != nil {
		return nil, err
	}
	return m, nil
}

// sharedPrefix returns a non-empty prefix (one character) shared by at least two ids, or "".
func sharedPrefix(ids []string) string {
	seen := map[byte]bool{}
	s := append([]string{}, ids...)
	sort.Strings(s)
	for _, id := range s {
		if seen[id[0]] {
			return id[:1]
		}
		seen[id[0]] = true
	}
	return ""
}

// uniquePrefix returns the shortest prefix of id (at least min characters) that no other id has.
func uniquePrefix(id string, all []string, min int) string {
	for k := min; k <= len(id); k++ {
		n := 0
		for _, o := range all {
			if strings.HasPrefix(o, id[:k]) {
				n++
			}
		}
		if n == 1 {
			return id[:k]
		}
	}
	return id
}

// value gives the concrete value of a catalogue tag in this world.
func (m *Meta) value(tag string) any {
	switch tag {
	case "prefix.full":
		return m.Target
	case "prefix.short":
		return m.Short
	case "prefix.closed":
		return m.Closed
	case "prefix.empty", "cid.empty", "title.empty", "msg.empty", "label.empty", "str.empty", "hash.empty":
		return ""
	case "prefix.nomatch", "cid.nomatch":
		return m.NoMatch
	case "prefix.ambiguous":
		return m.Ambiguous
	case "prefix.ctrl", "cid.ctrl":
		return m.Short + "\x00\n\x1b[2J"
	case "prefix.upper":
		return strings.ToUpper(m.Target)
	case "prefix.toolong":
		return m.Target + "00"
	case "prefix.identity":
		return m.User
	case "prefix.short-1":
		return m.Short[:len(m.Short)-1]
	case "cid.short-1":
		return m.CidShort[:len(m.CidShort)-1]
	case "cid.len1", "cid.len2", "cid.len3", "cid.len4":
		return m.CidFull[:int(tag[len(tag)-1]-'0')]
	case "cid.samebug":
		return m.CidSameBug
	case "cid.crossbug":
		return m.CidCrossBug
	case "cid.full":
		return m.CidFull
	case "cid.short":
		return m.CidShort
	case "cid.create":
		return m.CidCreate
	case "cid.bugonly":
		return m.Target
	case "cid.otherbug":
		return m.CidOther
	case "cid.ambiguous":
		return m.CidAmbig
	case "repo.default":
		return defaultRepoName
	case "repo.unknown":
		return "no-such-repo"
	case "cm.x":
		return "client-mutation-1"
	case "title.kept":
		return keptOneLine
	case "title.kept-ends":
		return "\u00a0\u3000 framed by\u00a0spaces\u2028\u3000\u00a0"
	case "msg.kept":
		return keptMultiLine
	case "msg.kept-ends":
		return "\u3000\u00a0\r\nframed\u202fmessage\u2029\u00a0\r\n"
	case "label.kept":
		return "à\u00a0faire"
	case "label.kept2":
		return "می\u200cخواهم\u00adx\ue000\ufeffy 👨\u200d👩\u200d👧\u3000z"
	case "label.existing-kept":
		return keptExistingLabel
	case "str.kept":
		return keptOneLine
	case "title.new":
		return "a new title"
	case "title.ctrl":
		return "ti\x00tle\nwith\tcontrol\x1b[31m"
	case "title.same":
		return "target bug"
	case "title.long":
		return strings.Repeat("long title ", 200)
	case "msg.plain":
		return "a plain message"
	case "msg.other":
		return "another message, with unicode: héllo ✓"
	case "msg.ctrl":
		return "line one\r\nline\x00two\x1b[2J\ttab"
	case "msg.long":
		return strings.Repeat("0123456789abcdef", 4096)
	case "label.new":
		return "fresh"
	case "label.new2":
		return "fresh2"
	case "label.existing":
		return "existing"
	case "label.ctrl":
		return "la\nbel\x00"
	case "hash.v1":
		return m.H1
	case "hash.v2":
		return m.H2
	case "hash.bad":
		return "zz-not-a-hash"
	case "hash.badlen":
		return "abcdef"
	case "hash.upper":
		return strings.ToUpper(m.H1)
	case "hash.missing":
		return m.HMissing
	case "str.x":
		return "x"
	case "str.ctrl":
		return "x\x00\ny"
	}
	return "unknown-tag:" + tag
}

// ---- raw reading of what is recorded in git (independent of git-bug's entity reader) ------------

// RawOp is one stored operation as the JSON in the ops blob says.
type RawOp struct {
	Author string         `json:"author"` // author id of the pack the operation is in
	Commit string         `json:"commit"`
	F      map[string]any `json:"f"`
	Raw    string         `json:"raw"`
}

func (o RawOp) Type() int { f, _ := o.F["type"].(float64); return int(f) }

// readRawBug returns the operations stored under ref, oldest first (histories in this world are
// linear: first-parent chain).
func readRawBug(repo repository.RepoData, ref string) ([]RawOp, error) {
	h, err := repo.ResolveRef(ref)
	if err != nil {
		return nil, err
	}
	var packs [][]RawOp
	for {
		c, err := repo.ReadCommit(h)
		if err != nil {
			return nil, err
		}
		entries, err := repo.ReadTree(c.TreeHash)
		if err != nil {
			return nil, err
		}
		var pack []RawOp
		for _, e := range entries {
			if e.Name != "ops" {
				continue
			}
			data, err := repo.ReadData(e.Hash)
			if err != nil {
				return nil, err
			}
			var aux struct {
				Author struct {
					Id string `json:"id"`
				} `json:"author"`
				Ops []json.RawMessage `json:"ops"`
			}
			if err := json.Unmarshal(data, &aux); err != nil {
				return nil, err
			}
			for _, raw := range aux.Ops {
				var f map[string]any
				d := json.NewDecoder(bytes.NewReader(raw))
				if err := d.Decode(&f); err != nil {
					return nil, err
				}
				pack = append(pack, RawOp{Author: aux.Author.Id, Commit: string(h), F: f, Raw: string(raw)})
			}
		}
		packs = append(packs, pack)
		if len(c.Parents) == 0 {
			break
		}
		h = c.Parents[0]
	}
	var out []RawOp
	for i := len(packs) - 1; i >= 0; i-- {
		out = append(out, packs[i]...)
	}
	return out, nil
}
