package c17

import (
	"bytes"
	"crypto/sha1"
	"crypto/sha256"
	"encoding/hex"
	"encoding/json"
	"fmt"
	"io"
	"mime/multipart"
	"net/http"
	"net/http/httptest"
	"os"
	"path/filepath"
	"sort"
	"strings"

	"github.com/gorilla/mux"

	"github.com/MichaelMure/git-bug/api/auth"
	"github.com/MichaelMure/git-bug/api/graphql"
	httpapi "github.com/MichaelMure/git-bug/api/http"
	"github.com/MichaelMure/git-bug/cache"
	"github.com/MichaelMure/git-bug/entities/identity"
	"github.com/MichaelMure/git-bug/entity"
	"github.com/MichaelMure/git-bug/query"
	"github.com/MichaelMure/git-bug/repository"
	"github.com/MichaelMure/git-bug/verifshim/vctl"

	"verifharness/world"
)

// Viol is one oracle failure of a case.
type Viol struct {
	Oracle string `json:"oracle"`
	Sig    string `json:"sig"`
	Detail string `json:"detail"`
}

// Result is what the worker reports for one case.
type Result struct {
	Case       string   `json:"case"`
	Request    string   `json:"request,omitempty"` // the body that was sent (for samples and replays)
	Status     int      `json:"status"`
	Errors     []string `json:"errors,omitempty"`
	Panic      string   `json:"panic,omitempty"` // first line gqlgen's recover printed, if any
	Class      string   `json:"class"`           // nouser | must-succeed | unconstrained | unmodelled | upload-*
	Outcome    string   `json:"outcome"`         // refused | done | refused-validation ...
	Changed    bool     `json:"changed"`
	NonTrivial bool     `json:"nontrivial"` // the request reached argument decoding / a resolver
	Viol       []Viol   `json:"viol,omitempty"`
	HarnessErr string   `json:"harness_err,omitempty"`
	Schema     *Schema  `json:"schema,omitempty"`
}

// ---- the server, wired as commands/webui.go does -------------------------------------------------

type server struct {
	dir    string
	meta   *Meta
	repo   *repository.GoGitRepo
	mrc    *cache.MultiRepoCache
	rc     *cache.RepoCache
	gql    graphql.Handler
	router http.Handler
}

// open starts the handlers on the repository in dir; withUser selects read-write mode (the real
// auth.Middleware with the repository's user identity) or read-only mode (no middleware).
func open(dir string, meta *Meta, withUser bool) (*server, error) {
	repo, err := repository.OpenGoGitRepo(filepath.Join(dir, "repo"), world.Namespace, nil)
	if err != nil {
		return nil, err
	}
	s := &server{dir: dir, meta: meta, repo: repo}
	router := mux.NewRouter()
	if withUser {
		author, err := identity.GetUserIdentity(repo)
		if err != nil {
			return nil, err
		}
		if author.Id().String() != meta.User {
			return nil, fmt.Errorf("user identity of the repository is %s, expected %s", author.Id(), meta.User)
		}
		router.Use(auth.Middleware(author.Id()))
	}
	s.mrc = cache.NewMultiRepoCache()
	rc, events := s.mrc.RegisterDefaultRepository(repo)
	for e := range events {
		if e.Err != nil {
			return nil, fmt.Errorf("cache: %w", e.Err)
		}
	}
	s.rc = rc
	s.gql = graphql.NewHandler(s.mrc, nil)
	router.Path("/graphql").Handler(s.gql)
	router.Path("/gitfile/{repo}/{hash}").Handler(httpapi.NewGitFileHandler(s.mrc))
	router.Path("/upload/{repo}").Methods("POST").Handler(httpapi.NewGitUploadFileHandler(s.mrc))
	s.router = router
	return s, nil
}

func (s *server) close() error {
	err := s.gql.Close()
	if e := s.repo.Close(); err == nil {
		err = e
	}
	return err
}

// post sends a GraphQL request; stderr output of the request (gqlgen prints recovered panics
// there) is captured and returned.
func (s *server) post(body []byte) (status int, resp []byte, stderr string) {
	tmp, err := os.CreateTemp(s.dir, "stderr")
	old := os.Stderr
	if err == nil {
		os.Stderr = tmp
	}
	req := httptest.NewRequest("POST", "/graphql", bytes.NewReader(body))
	req.Header.Set("Content-Type", "application/json")
	w := httptest.NewRecorder()
	s.router.ServeHTTP(w, req)
	os.Stderr = old
	if err == nil {
		tmp.Seek(0, 0)
		b, _ := io.ReadAll(tmp)
		stderr = string(b)
		tmp.Close()
		os.Remove(tmp.Name())
	}
	return w.Code, w.Body.Bytes(), stderr
}

func gqlBody(doc string, vars map[string]any) []byte {
	b, _ := json.Marshal(map[string]any{"query": doc, "variables": vars})
	return b
}

type gqlResponse struct {
	Data   map[string]json.RawMessage `json:"data"`
	Errors []struct {
		Message string `json:"message"`
		Path    []any  `json:"path"`
	} `json:"errors"`
}

const readQuery = `{ repository { allBugs(first: 100) { totalCount nodes { id title status labels { name } comments(first: 100) { nodes { id message files author { id } } } operations(first: 100) { nodes { id author { id } } } } }
 allIdentities(first: 20) { totalCount nodes { id name } } userIdentity { id } validLabels(first: 50) { nodes { name } } } }`

// ---- snapshots -----------------------------------------------------------------------------------

// State is everything the statement says must not change without a user.
type State struct {
	Refs      []string          // "name hash" for every ref, plus HEAD
	Reachable []string          // ids of all objects reachable from the refs
	Objects   []string          // every file under .git/objects (loose objects and packs)
	Clocks    []string          // persisted clock files
	Bugs      map[string][]RawOp // stored operations per bug ref
	Idents    []string          // identity refs with their head
}

func sha(parts ...string) string {
	h := sha256.New()
	for _, p := range parts {
		io.WriteString(h, p)
		h.Write([]byte{0})
	}
	return hex.EncodeToString(h.Sum(nil))[:16]
}

// snapshot reads the repository through a separate handle with its own local-storage namespace
// (so that reading cannot touch git-bug's own clock files).
func snapshot(dir string) (*State, error) {
	rd, err := repository.OpenGoGitRepo(filepath.Join(dir, "repo"), "verif-reader", nil)
	if err != nil {
		return nil, err
	}
	defer rd.Close()
	st := &State{Bugs: map[string][]RawOp{}}
	refs, err := rd.ListRefs("")
	if err != nil {
		return nil, err
	}
	sort.Strings(refs)
	seen := map[repository.Hash]bool{}
	var walkTree func(h repository.Hash) error
	walkTree = func(h repository.Hash) error {
		if seen[h] {
			return nil
		}
		seen[h] = true
		entries, err := rd.ReadTree(h)
		if err != nil {
			return fmt.Errorf("tree %s: %w", h, err)
		}
		for _, e := range entries {
			if e.ObjectType == repository.Tree {
				if err := walkTree(e.Hash); err != nil {
					return err
				}
			} else {
				seen[e.Hash] = true
			}
		}
		return nil
	}
	for _, r := range refs {
		if r == "HEAD" {
			continue // symbolic, may point at an unborn branch
		}
		h, err := rd.ResolveRef(r)
		if err != nil {
			return nil, fmt.Errorf("ref %s: %w", r, err)
		}
		st.Refs = append(st.Refs, r+" "+string(h))
		stack := []repository.Hash{h}
		for len(stack) > 0 {
			c := stack[len(stack)-1]
			stack = stack[:len(stack)-1]
			if seen[c] {
				continue
			}
			seen[c] = true
			cm, err := rd.ReadCommit(c)
			if err != nil {
				return nil, fmt.Errorf("commit %s: %w", c, err)
			}
			if err := walkTree(cm.TreeHash); err != nil {
				return nil, err
			}
			stack = append(stack, cm.Parents...)
		}
		if strings.HasPrefix(r, "refs/bugs/") {
			ops, err := readRawBug(rd, r)
			if err != nil {
				return nil, fmt.Errorf("raw read of %s: %w", r, err)
			}
			st.Bugs[strings.TrimPrefix(r, "refs/bugs/")] = ops
		}
		if strings.HasPrefix(r, "refs/identities/") {
			st.Idents = append(st.Idents, r+" "+string(h))
		}
	}
	if head, err := os.ReadFile(filepath.Join(gitDir(dir), "HEAD")); err == nil {
		st.Refs = append(st.Refs, "HEAD "+strings.TrimSpace(string(head)))
	}
	for h := range seen {
		st.Reachable = append(st.Reachable, string(h))
	}
	sort.Strings(st.Reachable)
	objDir := filepath.Join(gitDir(dir), "objects")
	filepath.Walk(objDir, func(p string, info os.FileInfo, err error) error {
		if err == nil && !info.IsDir() {
			rel, _ := filepath.Rel(objDir, p)
			st.Objects = append(st.Objects, fmt.Sprintf("%s %d", rel, info.Size()))
		}
		return nil
	})
	sort.Strings(st.Objects)
	st.Clocks = world.ClockValues(gitDir(dir))
	return st, nil
}

// diff lists what differs between two states, by the statement's categories.
func (a *State) diff(b *State) []string {
	var out []string
	if strings.Join(a.Refs, "\n") != strings.Join(b.Refs, "\n") {
		out = append(out, "refs")
	}
	if strings.Join(a.Reachable, "\n") != strings.Join(b.Reachable, "\n") {
		out = append(out, "reachable-objects")
	}
	if strings.Join(a.Objects, "\n") != strings.Join(b.Objects, "\n") {
		out = append(out, "object-store")
	}
	if strings.Join(a.Clocks, "\n") != strings.Join(b.Clocks, "\n") {
		out = append(out, "clocks")
	}
	return out
}

func describeDiff(a, b *State) string {
	var sb strings.Builder
	set := func(l []string) map[string]bool {
		m := map[string]bool{}
		for _, x := range l {
			m[x] = true
		}
		return m
	}
	for _, p := range []struct {
		name string
		x, y []string
	}{{"refs", a.Refs, b.Refs}, {"objects", a.Objects, b.Objects}, {"clocks", a.Clocks, b.Clocks}} {
		sx, sy := set(p.x), set(p.y)
		for _, e := range p.y {
			if !sx[e] {
				fmt.Fprintf(&sb, " +%s:%s", p.name, e)
			}
		}
		for _, e := range p.x {
			if !sy[e] {
				fmt.Fprintf(&sb, " -%s:%s", p.name, e)
			}
		}
	}
	s := sb.String()
	if len(s) > 600 {
		s = s[:600] + "..."
	}
	return s
}

// cacheAnswers is the observation set of the cache: ids, excerpts, loaded snapshots (including
// operations staged in memory), query results, prefix resolution, identities, labels.
func cacheAnswers(rc *cache.RepoCache, live bool) string {
	var sb strings.Builder
	ids := append([]entity.Id{}, rc.Bugs().AllIds()...)
	sort.Slice(ids, func(i, j int) bool { return ids[i] < ids[j] })
	for _, id := range ids {
		ex, err := rc.Bugs().ResolveExcerpt(id)
		if err != nil {
			fmt.Fprintf(&sb, "excerpt %s: error %v\n", id, err)
			continue
		}
		fmt.Fprintf(&sb, "excerpt %s title=%q status=%s labels=%v comments=%d create=%d edit=%d author=%s actors=%v participants=%v\n",
			id, ex.Title, ex.Status, ex.Labels, ex.LenComments, ex.CreateLamportTime, ex.EditLamportTime, ex.AuthorId, ex.Actors, ex.Participants)
		b, err := rc.Bugs().Resolve(id)
		if err != nil {
			fmt.Fprintf(&sb, "bug %s: error %v\n", id, err)
			continue
		}
		snap := b.Snapshot()
		var ops []string
		for _, op := range snap.Operations {
			ops = append(ops, op.Id().String()[:10])
		}
		fmt.Fprintf(&sb, "bug %s ops=%v title=%q status=%s labels=%v ncomments=%d", id, ops, snap.Title, snap.Status, snap.Labels, len(snap.Comments))
		if live {
			fmt.Fprintf(&sb, " needcommit=%v", b.NeedCommit())
		}
		sb.WriteString("\n")
	}
	for _, qs := range []string{"status:open", "status:closed", "label:existing", "target", "author:other"} {
		q, err := query.Parse(qs)
		if err != nil {
			fmt.Fprintf(&sb, "query %q: parse error\n", qs)
			continue
		}
		res, err := rc.Bugs().Query(q)
		fmt.Fprintf(&sb, "query %q -> %v %v\n", qs, res, err)
	}
	iids := append([]entity.Id{}, rc.Identities().AllIds()...)
	sort.Slice(iids, func(i, j int) bool { return iids[i] < iids[j] })
	for _, id := range iids {
		ex, err := rc.Identities().ResolveExcerpt(id)
		if err != nil {
			fmt.Fprintf(&sb, "identity %s: error %v\n", id, err)
			continue
		}
		fmt.Fprintf(&sb, "identity %s name=%q\n", id, ex.Name)
	}
	fmt.Fprintf(&sb, "labels %v\n", rc.Bugs().ValidLabels())
	return sb.String()
}

// ---- one case ------------------------------------------------------------------------------------

func runCase(dir string, meta *Meta, schema *Schema, c Case) (res Result) {
	res.Case = c.ID()
	fail := func(format string, a ...any) Result {
		res.HarnessErr = fmt.Sprintf(format, a...)
		return res
	}
	add := func(oracle, sig, format string, a ...any) {
		res.Viol = append(res.Viol, Viol{Oracle: oracle, Sig: sig, Detail: fmt.Sprintf(format, a...)})
	}
	vctl.SetActor("server")
	s, err := open(dir, meta, c.User)
	if err != nil {
		return fail("open: %v", err)
	}
	closed := false
	defer func() {
		if !closed {
			s.close()
		}
	}()

	if c.Intro {
		_, body, _ := s.post(gqlBody(introspectionQuery, nil))
		sc, err := parseIntrospection(body)
		if err != nil {
			return fail("%v", err)
		}
		res.Schema = sc
		return res
	}

	// before: cache answers first (loading bugs may witness clocks), then the repository
	answersBefore := cacheAnswers(s.rc, true)
	_, readBefore, _ := s.post(gqlBody(readQuery, nil))
	before, err := snapshot(dir)
	if err != nil {
		return fail("snapshot: %v", err)
	}

	if c.Upload != "" {
		s.upload(c, &res)
	} else {
		var m *fieldDef
		for _, f := range schema.Mutations() {
			if f.Name == c.Mutation {
				f := f
				m = &f
			}
		}
		if m == nil {
			return fail("mutation %s not in the schema", c.Mutation)
		}
		vars, _ := substitute(c.Args, meta.value).(map[string]any)
		body := gqlBody(schema.document(*m), vars)
		res.Request = string(body)
		status, resp, stderr := s.post(body)
		res.Status = status
		var gr gqlResponse
		if err := json.Unmarshal(resp, &gr); err != nil {
			return fail("response of %s is not JSON: %s", c.Mutation, string(resp))
		}
		for _, e := range gr.Errors {
			res.Errors = append(res.Errors, e.Message)
			if len(e.Path) > 0 {
				res.NonTrivial = true
			}
		}
		if len(gr.Errors) == 0 {
			res.NonTrivial = true
		}
		if i := strings.Index(stderr, "\n"); i > 0 && strings.TrimSpace(stderr) != "" {
			res.Panic = strings.TrimSpace(stderr[:i])
		}
		s.judgeMutation(c, *m, vars, gr, before, &res)
	}

	answersAfter := cacheAnswers(s.rc, true)
	_, readAfter, _ := s.post(gqlBody(readQuery, nil))
	after, err := snapshot(dir)
	if err != nil {
		return fail("snapshot after: %v", err)
	}
	d := before.diff(after)
	res.Changed = len(d) > 0 || answersBefore != answersAfter

	// "queries keep working": with or without a user the read query answers without errors
	var rq gqlResponse
	if err := json.Unmarshal(readAfter, &rq); err != nil || len(rq.Errors) > 0 || rq.Data == nil {
		add("c17.queries", "read-query-fails-after:"+res.Class, "after the request the read query answers %s", clip(string(readAfter)))
	}

	switch res.Class {
	case "nouser", "upload-nouser":
		// nothing at all may differ
		for _, what := range d {
			add("c17.nouser.unchanged", "changed:"+what+":"+caseKind(c), "without a user the request changed %s:%s", what, describeDiff(before, after))
		}
		if answersBefore != answersAfter {
			add("c17.nouser.unchanged", "changed:cache-answers:"+caseKind(c), "without a user the cache answers changed:\n%s", lineDiff(answersBefore, answersAfter))
		}
		if canonRead(readBefore) != canonRead(readAfter) {
			add("c17.nouser.unchanged", "changed:query-answers:"+caseKind(c), "without a user the read query answers differently after the request")
		}
		// the persisted cache, as the next process sees it
		s.close()
		closed = true
		s2, err := open(dir, meta, false)
		if err != nil {
			add("c17.nouser.unchanged", "reopen-fails:"+caseKind(c), "after a refused request the repository cannot be opened: %v", err)
		} else {
			if a := cacheAnswers(s2.rc, true); a != answersBefore {
				add("c17.nouser.unchanged", "changed:persisted-cache:"+caseKind(c), "after a refused request and a restart the cache answers differ:\n%s", lineDiff(answersBefore, a))
			}
			s2.close()
			after2, err := snapshot(dir)
			if err == nil {
				already := map[string]bool{}
				for _, what := range d {
					already[what] = true
				}
				for _, what := range before.diff(after2) {
					if !already[what] {
						add("c17.nouser.unchanged", "changed-at-close:"+what+":"+caseKind(c), "closing the server after a refused request changed %s:%s", what, describeDiff(before, after2))
					}
				}
			}
		}
	default:
		// with a user: an answered error must not come with a change
		if res.Outcome == "refused" && res.Changed {
			what := strings.Join(d, ",")
			if what == "" {
				what = "cache-answers"
			}
			add("c17.user.refused-unchanged", "error-but-changed:"+what+":"+caseKind(c), "the request was answered with errors %v but changed %s:%s\n%s", res.Errors, what, describeDiff(before, after), lineDiff(answersBefore, answersAfter))
		}
	}
	return res
}

// canonRead renders the read query's answer with the lists whose order the API does not fix
// (identities and labels come out in map-iteration order) sorted.
func canonRead(body []byte) string {
	var v map[string]any
	if err := json.Unmarshal(body, &v); err != nil {
		return string(body)
	}
	data, _ := v["data"].(map[string]any)
	repo, _ := data["repository"].(map[string]any)
	for _, k := range []string{"allIdentities", "validLabels"} {
		conn, _ := repo[k].(map[string]any)
		nodes, _ := conn["nodes"].([]any)
		sort.Slice(nodes, func(i, j int) bool {
			a, _ := json.Marshal(nodes[i])
			b, _ := json.Marshal(nodes[j])
			return string(a) < string(b)
		})
	}
	out, _ := json.Marshal(v)
	return string(out)
}

func caseKind(c Case) string {
	if c.Upload != "" {
		return "upload/" + c.Upload
	}
	return c.Mutation
}

func clip(s string) string {
	if len(s) > 400 {
		return s[:400] + "..."
	}
	return s
}

func lineDiff(a, b string) string {
	la, lb := strings.Split(a, "\n"), strings.Split(b, "\n")
	sa, sbm := map[string]bool{}, map[string]bool{}
	for _, l := range la {
		sa[l] = true
	}
	for _, l := range lb {
		sbm[l] = true
	}
	var out []string
	for _, l := range la {
		if !sbm[l] {
			out = append(out, "- "+l)
		}
	}
	for _, l := range lb {
		if !sa[l] {
			out = append(out, "+ "+l)
		}
	}
	return clip(strings.Join(out, "\n"))
}

// ---- upload --------------------------------------------------------------------------------------

func uploadBytes(kind string) []byte {
	switch kind {
	case "png":
		return append([]byte{}, append(pngBytes, []byte("unique-upload-png")...)...)
	case "gif":
		return append([]byte{}, append(gifBytes, []byte("unique-upload-gif")...)...)
	case "jpeg":
		return append([]byte{}, append(jpegBytes, []byte("unique-upload-jpeg")...)...)
	case "pngtrunc":
		return []byte("\x89PNG\r\n\x1a\n")
	case "text":
		return []byte("just some text that is not an image\n")
	}
	return []byte{}
}

func gitBlobHash(data []byte) string {
	h := sha1.New()
	fmt.Fprintf(h, "blob %d\x00", len(data))
	h.Write(data)
	return hex.EncodeToString(h.Sum(nil))
}

func (s *server) upload(c Case, res *Result) {
	add := func(oracle, sig, format string, a ...any) {
		res.Viol = append(res.Viol, Viol{Oracle: oracle, Sig: sig, Detail: fmt.Sprintf(format, a...)})
	}
	data := uploadBytes(c.Upload)
	var buf bytes.Buffer
	mw := multipart.NewWriter(&buf)
	part, _ := mw.CreateFormFile("uploadfile", "noname")
	part.Write(data)
	mw.Close()
	repoVar, _ := s.meta.value(c.Repo).(string)
	req := httptest.NewRequest("POST", "/upload/"+repoVar, &buf)
	req.Header.Set("Content-Type", mw.FormDataContentType())
	w := httptest.NewRecorder()
	s.router.ServeHTTP(w, req)
	res.Status = w.Code
	res.Request = fmt.Sprintf("POST /upload/%s multipart uploadfile=%d bytes (%s)", repoVar, len(data), c.Upload)
	res.NonTrivial = true
	if !c.User {
		res.Class = "upload-nouser"
		res.Outcome = "refused"
		// the handler answers 403; the statement only says "refused", so any client-error status
		// counts (an unknown repository is answered 400 before the user is looked at)
		if w.Code < 400 || w.Code >= 500 {
			add("c17.nouser.refused", fmt.Sprintf("upload-status-%d:%s", w.Code, c.Upload), "upload without a user answered %d %s, expected a refusal (403)", w.Code, clip(w.Body.String()))
		}
		return
	}
	image := c.Upload == "png" || c.Upload == "gif" || c.Upload == "jpeg"
	if image && c.Repo == "repo.default" {
		res.Class = "upload-must-succeed"
		var out struct {
			Hash string `json:"hash"`
		}
		if w.Code != 200 || json.Unmarshal(w.Body.Bytes(), &out) != nil {
			res.Outcome = "refused"
			add("c17.user.upload", fmt.Sprintf("valid-upload-refused-%d:%s", w.Code, c.Upload), "upload of a %s with a user answered %d %s", c.Upload, w.Code, clip(w.Body.String()))
			return
		}
		res.Outcome = "done"
		if out.Hash != gitBlobHash(data) {
			add("c17.user.upload", "wrong-hash:"+c.Upload, "upload answered hash %s, the git blob id of the content is %s", out.Hash, gitBlobHash(data))
		}
		rd, err := repository.OpenGoGitRepo(filepath.Join(s.dir, "repo"), "verif-reader", nil)
		if err == nil {
			got, err := rd.ReadData(repository.Hash(out.Hash))
			if err != nil || !bytes.Equal(got, data) {
				add("c17.user.upload", "not-stored:"+c.Upload, "blob %s cannot be read back identically: %v", out.Hash, err)
			}
			rd.Close()
		}
		return
	}
	res.Class = "upload-unconstrained"
	if w.Code == 200 {
		res.Outcome = "done"
	} else {
		res.Outcome = "refused"
	}
}
