package c17

import (
	"bytes"
	"encoding/json"
	"fmt"
	"io"
	"mime/multipart"
	"net"
	"net/http"
	"os"
	"os/exec"
	"path/filepath"
	"sort"
	"strings"
	"syscall"
	"time"

	"github.com/MichaelMure/git-bug/cache"
	"github.com/MichaelMure/git-bug/repository"

	"verifharness/evidence"
	"verifharness/world"
)

// ---- "the real command": `git-bug webui [--read-only]` as a process, talked to over real HTTP ----
//
// The enumeration in exec.go builds the handler chain itself (as commands/webui.go does) and so
// never executes commands/webui.go, where the request context user is decided. This part starts
// the command on prepared repositories {user identity configured, none configured, configured id
// missing locally} x {read-only, read-write}.

// WebUICase is one start of the command.
type WebUICase struct {
	Config   string `json:"config"` // user-configured | no-user-configured | dangling-user-configured
	ReadOnly bool   `json:"read_only"`
}

func (w WebUICase) name() string {
	mode := "read-write"
	if w.ReadOnly {
		mode = "read-only"
	}
	return "webui-command/" + mode + "/" + w.Config
}

// WebUICases lists the starts, simplest first.
func WebUICases() []WebUICase {
	var out []WebUICase
	for _, ro := range []bool{true, false} {
		for _, c := range []string{"user-configured", "no-user-configured", "dangling-user-configured"} {
			out = append(out, WebUICase{Config: c, ReadOnly: ro})
		}
	}
	return out
}

// buildGitBug builds the real binary from the tree under test, next to the harness binary.
func buildGitBug() (string, error) {
	repo := os.Getenv("VERIF_REPO")
	if repo == "" {
		repo = "/repo"
	}
	out := filepath.Join(evidence.Root(), ".build", "C17", "git-bug")
	if exe, err := os.Executable(); err == nil {
		out = filepath.Join(filepath.Dir(exe), "git-bug")
	}
	os.MkdirAll(filepath.Dir(out), 0o755)
	cmd := exec.Command("go", "build", "-o", out, ".")
	cmd.Dir = repo
	cmd.Env = append(os.Environ(), "GOFLAGS=-mod=mod", "GOPROXY=off", "GOSUMDB=off", "GOTOOLCHAIN=local")
	if b, err := cmd.CombinedOutput(); err != nil {
		return "", fmt.Errorf("go build of git-bug failed: %v\n%s", err, b)
	}
	return out, nil
}

// WebUIResult is what one start observed.
type WebUIResult struct {
	Case      WebUICase `json:"case"`
	Started   bool      `json:"started"`
	Output    string    `json:"output"` // what the command printed (tail)
	Mutations []string  `json:"mutations"`
	Refused   int       `json:"refused"`
	Done      int       `json:"done"`
	Notes     []string  `json:"notes,omitempty"`
	Viol      []Viol    `json:"viol,omitempty"`
}

func localConfig(repoDir string) (string, error) {
	cmd := exec.Command("git", "config", "--local", "--list")
	cmd.Dir = repoDir
	b, err := cmd.Output()
	if err != nil {
		return "", err
	}
	lines := strings.Split(strings.TrimSpace(string(b)), "\n")
	sort.Strings(lines)
	return strings.Join(lines, "\n"), nil
}

func offlineAnswers(repoDir string) (string, error) {
	repo, err := repository.OpenGoGitRepo(repoDir, world.Namespace, nil)
	if err != nil {
		return "", err
	}
	defer repo.Close()
	rc, events := cache.NewRepoCache(repo)
	for e := range events {
		if e.Err != nil {
			return "", e.Err
		}
	}
	a := cacheAnswers(rc, false)
	return a, rc.Close()
}

type httpClient struct {
	base string
	c    *http.Client
}

func (h *httpClient) gql(doc string, vars map[string]any) (*gqlResponse, []byte, error) {
	resp, err := h.c.Post(h.base+"/graphql", "application/json", bytes.NewReader(gqlBody(doc, vars)))
	if err != nil {
		return nil, nil, err
	}
	defer resp.Body.Close()
	body, _ := io.ReadAll(resp.Body)
	var gr gqlResponse
	if err := json.Unmarshal(body, &gr); err != nil {
		return nil, body, fmt.Errorf("answer is not JSON: %s", clip(string(body)))
	}
	return &gr, body, nil
}

// runWebUICase prepares a repository, starts the command, talks to it, stops it, and judges.
// err is a harness failure.
func runWebUICase(bin, root string, wc WebUICase) (res WebUIResult, err error) {
	res.Case = wc
	name := wc.name()
	add := func(what, format string, a ...any) {
		res.Viol = append(res.Viol, Viol{Oracle: "c17.webui", Sig: name + ":" + what, Detail: name + ": " + fmt.Sprintf(format, a...)})
	}
	dir := filepath.Join(root, strings.ReplaceAll(name, "/", "_"))
	os.RemoveAll(dir)
	if err := os.MkdirAll(dir, 0o755); err != nil {
		return res, err
	}
	defer os.RemoveAll(dir)
	meta, err := buildWorld(dir)
	if err != nil {
		return res, fmt.Errorf("world: %w", err)
	}
	repoDir := filepath.Join(dir, "repo")
	gitcfg := func(args ...string) error {
		cmd := exec.Command("git", append([]string{"config", "--local"}, args...)...)
		cmd.Dir = repoDir
		if b, err := cmd.CombinedOutput(); err != nil {
			return fmt.Errorf("git config %v: %v %s", args, err, b)
		}
		return nil
	}
	switch wc.Config {
	case "no-user-configured":
		// a clone that only publishes bugs: identities exist, none was ever adopted
		if err := gitcfg("--unset", "git-bug.identity"); err != nil {
			return res, err
		}
	case "dangling-user-configured":
		if err := gitcfg("git-bug.identity", strings.Repeat("0123456789abcdef", 4)); err != nil {
			return res, err
		}
	}
	hasUser := !wc.ReadOnly && wc.Config == "user-configured"

	answersBefore, err := offlineAnswers(repoDir)
	if err != nil {
		return res, fmt.Errorf("cache before: %w", err)
	}
	cfgBefore, err := localConfig(repoDir)
	if err != nil {
		return res, err
	}
	before, err := snapshot(dir)
	if err != nil {
		return res, err
	}

	// start the command on a free port
	l, err := net.Listen("tcp", "127.0.0.1:0")
	if err != nil {
		return res, err
	}
	port := l.Addr().(*net.TCPAddr).Port
	l.Close()
	args := []string{"webui", "--no-open", "--port", fmt.Sprint(port)}
	if wc.ReadOnly {
		args = append(args, "--read-only")
	}
	cmd := exec.Command(bin, args...)
	cmd.Dir = repoDir
	cmd.Env = append(os.Environ(), "DBUS_SESSION_BUS_ADDRESS=unix:path=/nonexistent")
	var out bytes.Buffer
	cmd.Stdout, cmd.Stderr = &out, &out
	cmd.SysProcAttr = &syscall.SysProcAttr{Setpgid: true}
	cmd.WaitDelay = 5 * time.Second
	if err := cmd.Start(); err != nil {
		return res, err
	}
	exited := make(chan error, 1)
	go func() { exited <- cmd.Wait() }()
	addr := fmt.Sprintf("127.0.0.1:%d", port)
	deadline := time.Now().Add(60 * time.Second)
	running := true
	for !res.Started && running && time.Now().Before(deadline) {
		select {
		case <-exited:
			running = false
		default:
			if c, err := net.DialTimeout("tcp", addr, 200*time.Millisecond); err == nil {
				c.Close()
				res.Started = true
			} else {
				time.Sleep(50 * time.Millisecond)
			}
		}
	}
	stop := func() {
		if !running {
			return
		}
		cmd.Process.Signal(syscall.SIGTERM)
		select {
		case werr := <-exited:
			if werr != nil {
				add("exit-status-after-sigterm", "after SIGTERM the command ended with %v; output: %s", werr, clip(out.String()))
			}
		case <-time.After(40 * time.Second):
			syscall.Kill(-cmd.Process.Pid, syscall.SIGKILL)
			<-exited
			add("does-not-stop", "the command did not exit within 40 s after SIGTERM")
		}
		running = false
	}
	defer stop()
	if !res.Started && running {
		return res, fmt.Errorf("%s: neither listening nor exited after 60 s: %s", name, clip(out.String()))
	}

	if res.Started {
		h := &httpClient{base: "http://" + addr, c: &http.Client{Timeout: 30 * time.Second, Transport: &http.Transport{DisableKeepAlives: true}}}
		// what does this server offer?
		_, raw, err := h.gql(introspectionQuery, nil)
		if err != nil {
			return res, fmt.Errorf("%s: introspection over HTTP: %w", name, err)
		}
		schema, err := parseIntrospection(raw)
		if err != nil {
			return res, err
		}
		// queries keep working
		rq, rawRead, err := h.gql(readQuery, nil)
		if err != nil || len(rq.Errors) > 0 || rq.Data == nil {
			add("read-query-fails", "the read query answers %s (%v)", clip(string(rawRead)), err)
		} else {
			var rd struct {
				Repository struct {
					UserIdentity *struct {
						Id string `json:"id"`
					} `json:"userIdentity"`
					AllBugs struct {
						TotalCount int `json:"totalCount"`
					} `json:"allBugs"`
				} `json:"repository"`
			}
			json.Unmarshal(rq.Data["repository"], &rd.Repository)
			if rd.Repository.AllBugs.TotalCount != len(meta.Bugs) {
				add("read-query-wrong", "the read query lists %d bugs, the repository has %d", rd.Repository.AllBugs.TotalCount, len(meta.Bugs))
			}
			switch {
			case !hasUser && rd.Repository.UserIdentity != nil:
				add("user-attached-without-read-write-user", "userIdentity is %s although no user can be attached", rd.Repository.UserIdentity.Id)
			case hasUser && (rd.Repository.UserIdentity == nil || rd.Repository.UserIdentity.Id != meta.User):
				add("configured-user-not-attached", "userIdentity is %v, the configured user is %s", rd.Repository.UserIdentity, meta.User)
			}
		}
		// one well-formed request per mutation the schema lists
		g := &generator{s: schema}
		for _, m := range schema.Mutations() {
			var c *Case
			var vars map[string]any
			var ref reference
			for _, a := range g.objects(m.Args, 0) {
				cand := Case{Mutation: m.Name, Args: a.(map[string]any), User: true}
				v, _ := substitute(cand.Args, meta.value).(map[string]any)
				r := meta.refEffect(cand, v)
				if (r.known && r.must) || (!r.known && allValid(cand.Args)) {
					c, vars, ref = &cand, v, r
					break
				}
			}
			if c == nil {
				res.Notes = append(res.Notes, "no well-formed argument shape for "+m.Name)
				continue
			}
			res.Mutations = append(res.Mutations, m.Name)
			pre, err := snapshot(dir)
			if err != nil {
				return res, err
			}
			gr, rawM, err := h.gql(schema.document(m), vars)
			if err != nil {
				return res, fmt.Errorf("%s: %s over HTTP: %w", name, m.Name, err)
			}
			post, err := snapshot(dir)
			if err != nil {
				return res, err
			}
			refused := len(gr.Errors) > 0
			if refused {
				res.Refused++
			} else {
				res.Done++
			}
			if !hasUser {
				if !refused {
					add("mutation-accepted:"+m.Name, "%s was answered without error: %s", m.Name, clip(string(rawM)))
				}
				for _, what := range pre.diff(post) {
					add("mutation-changed-"+what+":"+m.Name, "%s changed %s:%s", m.Name, what, describeDiff(pre, post))
				}
				continue
			}
			if refused {
				add("mutation-refused:"+m.Name, "%s with well-formed arguments was answered %s", m.Name, clip(string(rawM)))
				continue
			}
			var newOps []RawOp
			for id, ops := range post.Bugs {
				old := pre.Bugs[id]
				if len(ops) >= len(old) && sameOps(old, ops[:len(old)]) {
					newOps = append(newOps, ops[len(old):]...)
				} else {
					add("history-rewritten:"+m.Name, "%s rewrote stored operations of bug %s", m.Name, id)
				}
			}
			for _, op := range newOps {
				if op.Author != meta.User {
					add("not-authored-by-user:"+m.Name, "%s recorded an operation authored by %s, the configured user is %s", m.Name, op.Author, meta.User)
				}
			}
			if ref.known && len(newOps) != len(ref.ops) {
				add("op-count:"+m.Name, "%s recorded %d operations, expected %d", m.Name, len(newOps), len(ref.ops))
			}
		}
		// the upload endpoint
		{
			pre, _ := snapshot(dir)
			var buf bytes.Buffer
			mw := multipart.NewWriter(&buf)
			part, _ := mw.CreateFormFile("uploadfile", "noname")
			part.Write(uploadBytes("png"))
			mw.Close()
			resp, err := h.c.Post(h.base+"/upload/"+defaultRepoName, mw.FormDataContentType(), &buf)
			if err != nil {
				return res, fmt.Errorf("%s: upload over HTTP: %w", name, err)
			}
			body, _ := io.ReadAll(resp.Body)
			resp.Body.Close()
			post, _ := snapshot(dir)
			if !hasUser {
				if resp.StatusCode < 400 || resp.StatusCode >= 500 {
					add("upload-accepted", "the upload was answered %d %s", resp.StatusCode, clip(string(body)))
				}
				for _, what := range pre.diff(post) {
					add("upload-changed-"+what, "the upload changed %s:%s", what, describeDiff(pre, post))
				}
			} else if resp.StatusCode != 200 {
				add("upload-refused", "the upload of a PNG was answered %d %s", resp.StatusCode, clip(string(body)))
			}
		}
	}
	stop()
	res.Output = clip(out.String())

	// after the command: what is left behind
	if _, err := os.Stat(filepath.Join(gitDir(dir), world.Namespace, "lock")); err == nil {
		add("lock-left", "the lock file is still there after the command ended")
	}
	after, err := snapshot(dir)
	if err != nil {
		return res, err
	}
	cfgAfter, err := localConfig(repoDir)
	if err != nil {
		return res, err
	}
	if !res.Started {
		if wc.ReadOnly || wc.Config == "user-configured" {
			// a read-only web UI never uses a user identity; a read-write one has its user
			add("does-not-start", "the command ended instead of serving: %s", clip(out.String()))
		} else {
			res.Notes = append(res.Notes, "read-write without a usable user identity: the command refuses to start ("+lastLine(out.String())+")")
		}
	}
	if !hasUser {
		for _, what := range before.diff(after) {
			add("changed-"+what, "the repository differs after the command: %s:%s", what, describeDiff(before, after))
		}
		if cfgBefore != cfgAfter {
			if wc.ReadOnly {
				add("config-changed", "the local configuration differs after a read-only web UI:\n%s", lineDiff(cfgBefore, cfgAfter))
			} else {
				// read-write start-up tidies its own dangling git-bug.identity key; the statement is
				// about requests without a user, not about this
				res.Notes = append(res.Notes, "read-write start changed git-bug's own configuration: "+strings.ReplaceAll(lineDiff(cfgBefore, cfgAfter), "\n", " | "))
			}
		}
		answersAfter, err := offlineAnswers(repoDir)
		if err != nil {
			add("cache-unusable-after", "after the command the cache cannot be opened: %v", err)
		} else if answersAfter != answersBefore && cfgBefore == cfgAfter {
			add("cache-answers-changed", "the cache answers differ after the command:\n%s", lineDiff(answersBefore, answersAfter))
		}
	}
	return res, nil
}

func lastLine(s string) string {
	l := strings.Split(strings.TrimSpace(s), "\n")
	return clip(l[len(l)-1])
}

// runWebUIPart runs every start once.
func runWebUIPart(bin string) ([]WebUIResult, error) {
	root := world.ScratchRoot()
	defer os.RemoveAll(root)
	var out []WebUIResult
	for _, wc := range WebUICases() {
		r, err := runWebUICase(bin, root, wc)
		if err != nil {
			return out, err
		}
		out = append(out, r)
	}
	return out, nil
}
