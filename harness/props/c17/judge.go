package c17

import (
	"encoding/json"
	"fmt"
	"reflect"
	"regexp"
	"sort"
	"strings"
	"unicode"
)

// operation type numbers of the documented bug format
const (
	opCreate      = 1
	opSetTitle    = 2
	opAddComment  = 3
	opSetStatus   = 4
	opLabelChange = 5
	opEditComment = 6
)

// expOp is one operation the reference says must have been appended.
type expOp struct {
	Type   int
	Fields map[string]any // JSON fields that must have exactly these values
}

// reference is the effect of a known mutation on well-formed arguments, written from the schema
// documentation ("Add a new comment to a bug and close it", ...). known=false: a mutation this
// harness has never heard of. must=false: the statement does not say what has to happen
// (arguments outside the valid catalogue, or a request that asks for nothing new).
type reference struct {
	known  bool
	must   bool
	// refuse: the prefix argument does not denote exactly one bug / comment of the population
	// (no match, or several): the request must be answered with an error and change nothing
	refuse      bool
	refuseClass string
	newBug bool
	target string // bug that receives the operations
	ops    []expOp
}

func str(m map[string]any, k string) (string, bool) { s, ok := m[k].(string); return s, ok }

func strList(v any) []string {
	l, _ := v.([]any)
	out := []string{}
	for _, e := range l {
		s, _ := e.(string)
		out = append(out, s)
	}
	return out
}

func (meta *Meta) refEffect(c Case, vars map[string]any) reference {
	in, _ := vars["input"].(map[string]any)
	in = cleanedInput(in) // what has to be recorded
	shape, _ := c.Args["input"].(map[string]any)
	// validity of everything except the prefix arguments comes from the catalogue; what a prefix
	// denotes is decided by resolving it over the population, independently of git-bug
	rest := map[string]any{}
	for k, v := range shape {
		if k != "prefix" && k != "targetPrefix" {
			rest[k] = v
		}
	}
	valid := in != nil && allValid(rest)
	r := reference{known: true}
	refuse := func(n int, sameBug bool) {
		r.refuse = true
		switch {
		case n == 0:
			r.refuseClass = "no-match-prefix"
		case sameBug:
			r.refuseClass = "ambiguous-prefix-same-bug"
		default:
			r.refuseClass = "ambiguous-prefix"
		}
	}
	bugOf := func() (id string, labels []string, closed bool) {
		p, ok := in["prefix"].(string)
		if !ok {
			return "", nil, false
		}
		ms := meta.resolveBug(p)
		if len(ms) != 1 {
			refuse(len(ms), false)
			return "", nil, false
		}
		return ms[0].Id, ms[0].Labels, ms[0].Closed
	}
	titleOf := func(id string) string {
		for _, b := range meta.BugInfos {
			if b.Id == id {
				return b.Title
			}
		}
		return ""
	}
	files := func() any { return strList(in["files"]) }
	switch c.Mutation {
	case "newBug":
		r.newBug = true
		r.must = valid
		r.ops = []expOp{{opCreate, map[string]any{"title": in["title"], "message": in["message"], "files": files()}}}
	case "addComment", "addCommentAndClose", "addCommentAndReopen":
		id, _, closed := bugOf()
		r.target = id
		r.must = valid && id != ""
		r.ops = []expOp{{opAddComment, map[string]any{"message": in["message"], "files": files()}}}
		if c.Mutation == "addCommentAndClose" {
			r.ops = append(r.ops, expOp{opSetStatus, map[string]any{"status": 2.0}})
			r.must = r.must && !closed
		}
		if c.Mutation == "addCommentAndReopen" {
			r.ops = append(r.ops, expOp{opSetStatus, map[string]any{"status": 1.0}})
			r.must = r.must && closed
		}
	case "editComment":
		var opId string
		if p, ok := in["targetPrefix"].(string); ok {
			ms := meta.resolveComment(p)
			if len(ms) == 1 {
				r.target, opId = ms[0].Bug, ms[0].Op
			} else {
				same := len(ms) > 1
				for _, x := range ms {
					if x.Bug != ms[0].Bug {
						same = false
					}
				}
				refuse(len(ms), same)
			}
		}
		r.must = valid && r.target != ""
		r.ops = []expOp{{opEditComment, map[string]any{"target": opId, "message": in["message"], "files": files()}}}
	case "changeLabels":
		id, labels, _ := bugOf()
		r.target = id
		added, removed := strList(in["added"]), strList(in["Removed"])
		has := func(l []string, s string) bool {
			for _, x := range l {
				if x == s {
					return true
				}
			}
			return false
		}
		ok := valid && id != "" && len(added)+len(removed) > 0
		seen := map[string]bool{}
		for _, a := range added {
			if has(labels, a) || seen[a] {
				ok = false
			}
			seen[a] = true
		}
		for _, x := range removed {
			if !has(labels, x) || seen[x] {
				ok = false
			}
			seen[x] = true
		}
		r.must = ok
		r.ops = []expOp{{opLabelChange, map[string]any{"added": added, "removed": removed}}}
	case "openBug":
		id, _, closed := bugOf()
		r.target = id
		r.must = valid && id != "" && closed
		r.ops = []expOp{{opSetStatus, map[string]any{"status": 1.0}}}
	case "closeBug":
		id, _, closed := bugOf()
		r.target = id
		r.must = valid && id != "" && !closed
		r.ops = []expOp{{opSetStatus, map[string]any{"status": 2.0}}}
	case "setTitle":
		id, _, closed := bugOf()
		r.target = id
		_ = closed
		was := titleOf(id)
		r.must = valid && id != "" && in["title"] != was
		r.ops = []expOp{{opSetTitle, map[string]any{"title": in["title"], "was": was}}}
	default:
		return reference{}
	}
	if r.refuse {
		r.must = false
	}
	return r
}

// refClean is the documented clean-up of text arguments, written here independently of
// util/text: CRLF becomes LF; characters for which unicode.IsControl holds are dropped (in
// multi-line text \n and \t stay); the result is trimmed with strings.TrimSpace, which removes
// Unicode white space (U+00A0, U+3000, U+2028 ... included) at the two ends only. Everything
// else - no-break and ideographic spaces inside the text, joiners, soft hyphens, separators,
// private-use characters, a BOM in the middle - is part of what the user asked to record.
func refClean(s string, multiline bool) string {
	s = strings.ReplaceAll(s, "\r\n", "\n")
	var sb strings.Builder
	for _, r := range s {
		if multiline && (r == '\n' || r == '\t') {
			sb.WriteRune(r)
			continue
		}
		if unicode.IsControl(r) {
			continue
		}
		sb.WriteRune(r)
	}
	return strings.TrimSpace(sb.String())
}

// cleanedInput is the input object with its text arguments as they have to be recorded.
func cleanedInput(in map[string]any) map[string]any {
	if in == nil {
		return nil
	}
	out := make(map[string]any, len(in))
	for k, v := range in {
		out[k] = v
	}
	if t, ok := in["title"].(string); ok {
		out["title"] = refClean(t, false)
	}
	if t, ok := in["message"].(string); ok {
		out["message"] = refClean(t, true)
	}
	for _, k := range []string{"added", "Removed"} {
		if l, ok := in[k].([]any); ok {
			cl := make([]any, len(l))
			for i, e := range l {
				if str, ok := e.(string); ok {
					cl[i] = refClean(str, false)
				} else {
					cl[i] = e
				}
			}
			out[k] = cl
		}
	}
	return out
}

var hexRun = regexp.MustCompile(`[0-9a-f]{7,}`)

func errClass(msgs []string, panicLine string) string {
	if len(msgs) == 0 {
		return "no-error"
	}
	s := hexRun.ReplaceAllString(msgs[0], "<id>")
	if len(s) > 70 {
		s = s[:70]
	}
	if panicLine != "" {
		s += ":panic=" + panicLine
	}
	return s
}

// normalise makes JSON values comparable: nil and empty lists are the same "no elements".
func normalise(v any) any {
	switch x := v.(type) {
	case nil:
		return []any{}
	case []string:
		out := []any{}
		for _, s := range x {
			out = append(out, s)
		}
		return out
	case []any:
		if x == nil {
			return []any{}
		}
		return x
	}
	return v
}

type retBug struct {
	Id     string `json:"id"`
	Title  string `json:"title"`
	Status string `json:"status"`
	Labels []struct {
		Name string `json:"name"`
	} `json:"labels"`
	Comments struct {
		Nodes []struct {
			Id      string   `json:"id"`
			Message string   `json:"message"`
			Files   []string `json:"files"`
			Author  struct {
				Id string `json:"id"`
			} `json:"author"`
		} `json:"nodes"`
	} `json:"comments"`
	Operations struct {
		Nodes []struct {
			Id     string `json:"id"`
			Author struct {
				Id string `json:"id"`
			} `json:"author"`
		} `json:"nodes"`
	} `json:"operations"`
}

func (s *server) judgeMutation(c Case, m fieldDef, vars map[string]any, gr gqlResponse, before *State, res *Result) {
	add := func(oracle, sig, format string, a ...any) {
		res.Viol = append(res.Viol, Viol{Oracle: oracle, Sig: sig, Detail: fmt.Sprintf(format, a...)})
	}
	refused := len(gr.Errors) > 0
	if refused {
		res.Outcome = "refused"
	} else {
		res.Outcome = "done"
	}
	if !c.User {
		res.Class = "nouser"
		if !refused {
			cls := ""
			if r := s.meta.refEffect(c, vars); r.refuse {
				cls = ":" + r.refuseClass
			}
			add("c17.nouser.refused", "answered-without-error:"+c.Mutation+cls, "mutation %s without a user was answered without an error: %s", c.Mutation, clip(string(gr.Data[m.Name])))
		}
		return
	}
	ref := s.meta.refEffect(c, vars)
	switch {
	case !ref.known:
		res.Class = "unmodelled"
	case ref.must:
		res.Class = "must-succeed"
	case ref.refuse:
		res.Class = "must-refuse"
	default:
		res.Class = "unconstrained"
	}
	if refused {
		if ref.must {
			withFiles := ""
			if in, _ := vars["input"].(map[string]any); in != nil && len(strList(in["files"])) > 0 {
				withFiles = ":with-files"
			}
			add("c17.user.carried-out", "valid-request-refused:"+errClass(res.Errors, res.Panic)+withFiles,
				"%s with well-formed arguments and a user attached was answered %v (panic recovered by the server: %q); request %s", c.Mutation, res.Errors, res.Panic, clip(res.Request))
		}
		return
	}

	if ref.refuse {
		in, _ := vars["input"].(map[string]any)
		p := in["prefix"]
		if c.Mutation == "editComment" {
			p = in["targetPrefix"]
		}
		add("c17.user.refused", c.Mutation+":"+ref.refuseClass+":accepted",
			"%s with prefix %q (%s: it denotes %s of the repository) and a user attached was carried out instead of being refused: %s", c.Mutation, p, ref.refuseClass,
			map[string]string{"no-match-prefix": "nothing", "ambiguous-prefix": "several bugs / comments", "ambiguous-prefix-same-bug": "several comments of one bug"}[ref.refuseClass], clip(string(gr.Data[m.Name])))
	}

	// the request was answered without error: what was recorded?
	after, err := snapshot(s.dir)
	if err != nil {
		add("c17.user.effect", "unreadable-after:"+c.Mutation, "after %s the repository cannot be read: %v", c.Mutation, err)
		return
	}
	var changed, created []string
	for id, ops := range after.Bugs {
		old, ok := before.Bugs[id]
		if !ok {
			created = append(created, id)
			continue
		}
		if len(old) != len(ops) || (len(ops) > 0 && !sameOps(old, ops)) {
			changed = append(changed, id)
		}
	}
	for id := range before.Bugs {
		if _, ok := after.Bugs[id]; !ok {
			add("c17.user.effect", "bug-removed:"+c.Mutation, "bug %s disappeared", id)
		}
	}
	sort.Strings(changed)
	sort.Strings(created)
	touched := append(append([]string{}, changed...), created...)
	// generic: append-only, authored by the user, nothing else moves
	var newOps []RawOp
	for _, id := range changed {
		old, ops := before.Bugs[id], after.Bugs[id]
		if len(ops) < len(old) || !sameOps(old, ops[:len(old)]) {
			add("c17.user.effect", "history-rewritten:"+c.Mutation, "operations already stored for bug %s were changed", id)
			continue
		}
		newOps = append(newOps, ops[len(old):]...)
	}
	for _, id := range created {
		newOps = append(newOps, after.Bugs[id]...)
	}
	for _, op := range newOps {
		if op.Author != s.meta.User {
			add("c17.user.author", "not-authored-by-user:"+c.Mutation, "operation recorded by %s is authored by %s, the attached user is %s", c.Mutation, op.Author, s.meta.User)
		}
	}
	if strings.Join(before.Idents, "\n") != strings.Join(after.Idents, "\n") {
		add("c17.user.effect", "identities-changed:"+c.Mutation, "%s changed identity refs", c.Mutation)
	}
	allowed := map[string]bool{}
	for _, id := range touched {
		allowed["refs/bugs/"+id] = true
	}
	for _, r := range symDiff(before.Refs, after.Refs) {
		if name := strings.Fields(r)[0]; !allowed[name] {
			add("c17.user.effect", "foreign-ref-changed:"+c.Mutation, "%s changed ref %s", c.Mutation, r)
		}
	}
	if len(touched) > 1 {
		add("c17.user.effect", "several-bugs-changed:"+c.Mutation, "%s changed bugs %v", c.Mutation, touched)
	}

	// returned bug = the bug that was changed, and equal to what a fresh query shows
	var payload map[string]json.RawMessage
	json.Unmarshal(gr.Data[m.Name], &payload)
	var rb *retBug
	if raw, ok := payload["bug"]; ok && string(raw) != "null" {
		rb = &retBug{}
		json.Unmarshal(raw, rb)
	}
	if rb != nil {
		if len(touched) == 1 && rb.Id != touched[0] {
			add("c17.user.returned", "returned-bug-is-not-the-changed-one:"+c.Mutation, "%s changed bug %s and returned bug %s", c.Mutation, touched[0], rb.Id)
		}
		_, readAfter, _ := s.post(gqlBody(readQuery, nil))
		var rq struct {
			Data struct {
				Repository struct {
					AllBugs struct {
						Nodes []retBug `json:"nodes"`
					} `json:"allBugs"`
				} `json:"repository"`
			} `json:"data"`
		}
		json.Unmarshal(readAfter, &rq)
		found := false
		for _, n := range rq.Data.Repository.AllBugs.Nodes {
			if n.Id == rb.Id {
				found = true
				if !reflect.DeepEqual(n, *rb) {
					a, _ := json.Marshal(n)
					b, _ := json.Marshal(rb)
					add("c17.user.returned", "returned-bug-differs-from-query:"+c.Mutation, "%s returned %s but a query afterwards shows %s", c.Mutation, clip(string(b)), clip(string(a)))
				}
			}
		}
		if !found {
			add("c17.user.returned", "returned-bug-unknown:"+c.Mutation, "%s returned bug %s which a query afterwards does not list", c.Mutation, rb.Id)
		}
		if stored, ok := after.Bugs[rb.Id]; ok && len(rb.Operations.Nodes) != len(stored) {
			add("c17.user.returned", "returned-bug-op-count:"+c.Mutation, "%s returned a bug with %d operations, git stores %d", c.Mutation, len(rb.Operations.Nodes), len(stored))
		}
	}

	if !ref.known {
		return
	}
	if !ref.must {
		// the statement is silent on what these arguments have to do; whatever was recorded has
		// passed the generic checks above
		return
	}
	// exactly the requested change
	target := ref.target
	if ref.newBug {
		if len(created) != 1 || len(changed) != 0 {
			add("c17.user.effect", "newbug-effect:"+c.Mutation, "%s created %v and changed %v; expected exactly one new bug", c.Mutation, created, changed)
			return
		}
		target = created[0]
	} else if len(touched) != 1 || touched[0] != target || len(created) != 0 {
		add("c17.user.effect", "wrong-bug-changed:"+c.Mutation, "%s on bug %s changed %v (created %v)", c.Mutation, target, changed, created)
		return
	}
	if len(newOps) != len(ref.ops) {
		add("c17.user.effect", fmt.Sprintf("op-count-%d-expected-%d:%s", len(newOps), len(ref.ops), c.Mutation), "%s recorded %d operations, expected %d: %v", c.Mutation, len(newOps), len(ref.ops), rawList(newOps))
		return
	}
	for i, e := range ref.ops {
		got := newOps[i]
		if got.Type() != e.Type {
			add("c17.user.effect", fmt.Sprintf("op-type:%s", c.Mutation), "%s operation %d has type %d, expected %d", c.Mutation, i, got.Type(), e.Type)
			continue
		}
		for k, want := range e.Fields {
			if !reflect.DeepEqual(normalise(got.F[k]), normalise(want)) {
				add("c17.user.effect", fmt.Sprintf("op-field-%s:%s", k, c.Mutation), "%s recorded %s=%v, requested %v (stored operation %s)", c.Mutation, k, got.F[k], want, clip(got.Raw))
			}
		}
	}
	// the returned bug reflects the change
	if rb == nil {
		add("c17.user.returned", "no-bug-returned:"+c.Mutation, "%s returned no bug: %s", c.Mutation, clip(string(gr.Data[m.Name])))
		return
	}
	if rb.Id != target {
		add("c17.user.returned", "returned-bug-id:"+c.Mutation, "%s returned bug %s, expected %s", c.Mutation, rb.Id, target)
	}
	in, _ := vars["input"].(map[string]any)
	in = cleanedInput(in) // the returned bug must show the text as it has to be recorded
	reflects := func(ok bool, what string) {
		if !ok {
			b, _ := json.Marshal(rb)
			add("c17.user.returned", "returned-bug-does-not-reflect-"+what+":"+c.Mutation, "%s: the returned bug does not show the requested %s: %s", c.Mutation, what, clip(string(b)))
		}
	}
	lastComment := func() (string, []string) {
		n := rb.Comments.Nodes
		if len(n) == 0 {
			return "", nil
		}
		return n[len(n)-1].Message, n[len(n)-1].Files
	}
	sameFiles := func(a []string) bool {
		return reflect.DeepEqual(normalise(a), normalise(strList(in["files"])))
	}
	switch c.Mutation {
	case "newBug":
		msg, files := lastComment()
		reflects(rb.Title == in["title"] && rb.Status == "OPEN" && len(rb.Comments.Nodes) == 1 && msg == in["message"], "bug")
		reflects(sameFiles(files), "files")
	case "addComment", "addCommentAndClose", "addCommentAndReopen":
		msg, files := lastComment()
		reflects(msg == in["message"], "comment")
		reflects(sameFiles(files), "files")
		if c.Mutation == "addCommentAndClose" {
			reflects(rb.Status == "CLOSED", "status")
		}
		if c.Mutation == "addCommentAndReopen" {
			reflects(rb.Status == "OPEN", "status")
		}
	case "editComment":
		ok, okf := false, false
		for _, n := range rb.Comments.Nodes {
			if strings.HasPrefix(n.Id, fmt.Sprint(in["targetPrefix"])) {
				ok = n.Message == in["message"]
				okf = sameFiles(n.Files)
			}
		}
		reflects(ok, "comment")
		reflects(okf, "files")
	case "changeLabels":
		have := map[string]bool{}
		for _, l := range rb.Labels {
			have[l.Name] = true
		}
		ok := true
		for _, a := range strList(in["added"]) {
			ok = ok && have[a]
		}
		for _, x := range strList(in["Removed"]) {
			ok = ok && !have[x]
		}
		reflects(ok, "labels")
	case "openBug":
		reflects(rb.Status == "OPEN", "status")
	case "closeBug":
		reflects(rb.Status == "CLOSED", "status")
	case "setTitle":
		reflects(rb.Title == in["title"], "title")
	}
}

func sameOps(a, b []RawOp) bool {
	if len(a) != len(b) {
		return false
	}
	for i := range a {
		if a[i].Raw != b[i].Raw || a[i].Author != b[i].Author {
			return false
		}
	}
	return true
}

func rawList(ops []RawOp) []string {
	var out []string
	for _, o := range ops {
		out = append(out, clip(o.Raw))
	}
	return out
}

func symDiff(a, b []string) []string {
	sa, sb := map[string]bool{}, map[string]bool{}
	for _, x := range a {
		sa[x] = true
	}
	for _, x := range b {
		sb[x] = true
	}
	var out []string
	for _, x := range a {
		if !sb[x] {
			out = append(out, x)
		}
	}
	for _, x := range b {
		if !sa[x] {
			out = append(out, x)
		}
	}
	return out
}
