package c08

import (
	"bytes"
	"encoding/json"
	"fmt"
	"os"
	"path/filepath"

	"github.com/ProtonMail/go-crypto/openpgp"
	"github.com/ProtonMail/go-crypto/openpgp/armor"

	"github.com/MichaelMure/git-bug/entities/identity"
	"github.com/MichaelMure/git-bug/repository"

	"verifharness/evidence"
)

// RSA key generation costs 0.3-0.6 s per key, so the four keys of the check (K1, K2 used by the
// author, K3 a stranger's, K4 spare) are generated once and kept armored under testdata/keys.json;
// every run loads them from there. Only exported git-bug API is used to get a *identity.Key that
// carries its private part: the armored private key is served by an in-memory keyring to
// Identity.SigningKey.

type storedKey struct {
	Name string          `json:"name"`
	Pub  json.RawMessage `json:"pub"`  // what Key.MarshalJSON writes (armored public key as a JSON string)
	Priv string          `json:"priv"` // armored private key block, as git-bug keeps it in its keyring
}

func keysFile() string {
	return filepath.Join(evidence.Root(), "harness", "props", "c08", "testdata", "keys.json")
}

type memKeyring map[string][]byte

func (m memKeyring) Get(key string) (repository.Item, error) {
	d, ok := m[key]
	if !ok {
		return repository.Item{}, repository.ErrKeyringKeyNotFound
	}
	return repository.Item{Key: key, Data: d}, nil
}
func (m memKeyring) Set(item repository.Item) error { m[item.Key] = item.Data; return nil }
func (m memKeyring) Remove(key string) error        { delete(m, key); return nil }
func (m memKeyring) Keys() ([]string, error) {
	var out []string
	for k := range m {
		out = append(out, k)
	}
	return out, nil
}

type keyringHolder struct{ k memKeyring }

func (h keyringHolder) Keyring() repository.Keyring { return h.k }

// Keys are the loaded keys by name; every Key carries its private part.
type Keys map[string]*identity.Key

func generateKeys(path string) error {
	var out []storedKey
	for _, name := range []string{"K1", "K2", "K3", "K4"} {
		k := identity.GenerateKey()
		pub, err := json.Marshal(k)
		if err != nil {
			return err
		}
		var buf bytes.Buffer
		w, err := armor.Encode(&buf, openpgp.PrivateKeyType, nil)
		if err != nil {
			return err
		}
		if err := k.Private().Serialize(w); err != nil {
			return err
		}
		w.Close()
		out = append(out, storedKey{Name: name, Pub: pub, Priv: buf.String()})
	}
	b, _ := json.MarshalIndent(out, "", " ")
	_ = os.MkdirAll(filepath.Dir(path), 0o755)
	return os.WriteFile(path, append(b, '\n'), 0o644)
}

// LoadKeys reads testdata/keys.json (generating it when it does not exist yet).
func LoadKeys() (Keys, error) {
	path := keysFile()
	if _, err := os.Stat(path); err != nil {
		if err := generateKeys(path); err != nil {
			return nil, fmt.Errorf("cannot generate keys: %w", err)
		}
	}
	b, err := os.ReadFile(path)
	if err != nil {
		return nil, err
	}
	var stored []storedKey
	if err := json.Unmarshal(b, &stored); err != nil {
		return nil, err
	}
	out := Keys{}
	for _, sk := range stored {
		k := &identity.Key{}
		if err := json.Unmarshal(sk.Pub, k); err != nil {
			return nil, fmt.Errorf("key %s: %w", sk.Name, err)
		}
		ring := memKeyring{k.Public().KeyIdString(): []byte(sk.Priv)}
		holder, err := identity.NewIdentityFull(noClocks{}, "key holder", "", "", "", []*identity.Key{k})
		if err != nil {
			return nil, err
		}
		full, err := holder.SigningKey(keyringHolder{ring})
		if err != nil || full == nil || full.Private() == nil {
			return nil, fmt.Errorf("key %s: private part not loadable: %v", sk.Name, err)
		}
		out[sk.Name] = full
	}
	return out, nil
}

// KeyringOf returns an in-memory keyring serving the private parts of the given keys, in the form
// git-bug keeps them (armored private key block under the public key id).
func KeyringOf(keys Keys) (repository.RepoKeyring, error) {
	ring := memKeyring{}
	for _, k := range keys {
		var buf bytes.Buffer
		w, err := armor.Encode(&buf, openpgp.PrivateKeyType, nil)
		if err != nil {
			return nil, err
		}
		if err := k.Private().Serialize(w); err != nil {
			return nil, err
		}
		w.Close()
		ring[k.Public().KeyIdString()] = buf.Bytes()
	}
	return keyringHolder{ring}, nil
}
