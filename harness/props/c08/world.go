package c08

import (
	"bytes"
	"encoding/json"
	"fmt"
	"io"
	"path/filepath"
	"sort"
	"strconv"
	"strings"

	"github.com/ProtonMail/go-crypto/openpgp"
	"github.com/ProtonMail/go-crypto/openpgp/armor"
	"github.com/ProtonMail/go-crypto/openpgp/packet"
	gogit "github.com/go-git/go-git/v5"
	"github.com/go-git/go-git/v5/plumbing"
	"github.com/go-git/go-git/v5/plumbing/object"

	"github.com/MichaelMure/git-bug/entities/bug"
	"github.com/MichaelMure/git-bug/entities/identity"
	"github.com/MichaelMure/git-bug/entity"
	"github.com/MichaelMure/git-bug/repository"
	"github.com/MichaelMure/git-bug/util/lamport"
	"github.com/MichaelMure/git-bug/verifshim/vctl"
	"github.com/MichaelMure/git-bug/verifshim/vtime"

	"verifharness/world"
)

type noClocks struct{}

func (noClocks) AllClocks() (map[string]lamport.Clock, error) { return map[string]lamport.Clock{}, nil }
func (noClocks) GetOrCreateClock(string) (lamport.Clock, error) {
	return nil, fmt.Errorf("no clocks")
}
func (noClocks) Increment(string) (lamport.Time, error) { return 0, fmt.Errorf("no clocks") }
func (noClocks) Witness(string, lamport.Time) error     { return fmt.Errorf("no clocks") }

// Changes of the author's identity. The key set starts empty.
//
//	+K1 +K2   add a key            -K1 -K2   remove a key
//	rot       replace the single key in force by the other one
//	name      unrelated field change (keys unchanged)
var Alphabet = []string{"+K1", "+K2", "-K1", "-K2", "rot", "name"}

// applyChange returns the key set after the change; ok is false when the change is not applicable
// to the set (adding a present key, removing an absent one, rotating unless exactly one key).
func applyChange(set []string, ch string) (out []string, ok bool) {
	has := func(k string) bool {
		for _, x := range set {
			if x == k {
				return true
			}
		}
		return false
	}
	switch ch {
	case "+K1", "+K2":
		if has(ch[1:]) {
			return nil, false
		}
		return append(append([]string{}, set...), ch[1:]), true
	case "-K1", "-K2":
		if !has(ch[1:]) {
			return nil, false
		}
		for _, x := range set {
			if x != ch[1:] {
				out = append(out, x)
			}
		}
		return out, true
	case "rot":
		if len(set) != 1 {
			return nil, false
		}
		if set[0] == "K1" {
			return []string{"K2"}, true
		}
		return []string{"K1"}, true
	case "name":
		return append([]string{}, set...), true
	}
	return nil, false
}

// Histories enumerates all applicable change sequences of length <= n, shortest first.
func Histories(n int) [][]string { return HistoriesFrom(n, nil) }

// HistoriesFrom enumerates the change sequences applicable to an identity whose first version
// declares the keys of init.
func HistoriesFrom(n int, init []string) [][]string {
	var out [][]string
	var rec func(prefix []string, set []string)
	rec = func(prefix []string, set []string) {
		out = append(out, append([]string{}, prefix...))
		if len(prefix) == n {
			return
		}
		for _, ch := range Alphabet {
			if next, ok := applyChange(set, ch); ok {
				rec(append(prefix, ch), next)
			}
		}
	}
	rec(nil, init)
	sort.SliceStable(out, func(i, j int) bool { return len(out[i]) < len(out[j]) })
	return out
}

// Position of the tested commit relative to the versions: After j = one logical step after
// version j took effect (and before version j+1); At j (j >= 1) = at exactly the logical time
// recorded by version j.
type Position struct {
	J  int  `json:"j"`
	At bool `json:"at,omitempty"`
}

func (p Position) String() string {
	if p.At {
		return fmt.Sprintf("at-v%d", p.J)
	}
	return fmt.Sprintf("after-v%d", p.J)
}

func Positions(n int) []Position {
	out := []Position{{J: 0}}
	for j := 1; j <= n; j++ {
		out = append(out, Position{J: j, At: true}, Position{J: j})
	}
	return out
}

// Signers of the tested commit.
var Signers = []string{"K1", "K2", "K3", "nobody", "altered-tree", "altered-parent"}

// JoinSigners are the signers of a tested join commit (two parents, empty operation pack, as merge()
// writes it): the first key in force, a stranger's key, nobody, the key in force with the commit
// altered afterwards.
var JoinSigners = []string{"in-force", "K3", "nobody", "altered-tree", "altered-parent"}

// signingAuthor is the author identity with SigningKey overridden: the harness decides who signs.
type signingAuthor struct {
	*identity.Identity
	key *identity.Key
}

func (s signingAuthor) SigningKey(repository.RepoKeyring) (*identity.Key, error) { return s.key, nil }

// Built is a constructed case: repository A holds the author's identity history and the bug.
type Built struct {
	Dir      string
	Bug      entity.Id
	Author   entity.Id
	Tested   repository.Hash // the tested commit
	SignedBy string          // key that signed the tested commit ("" = unsigned)
	Skip     string
	// value of the bug edit clock of the repository read right before each version of the author's
	// identity was created (NewIdentity, then every Mutate): the logical time at which that version
	// was made, taken independently of what the version itself recorded
	Clock []uint64
	// refs of repository A at the early point: the author's identity in its first version, the bug
	// with its first two commits (no key declared yet); everything else comes later
	Early map[string]string
}

// gitBugRefs lists refs/bugs and refs/identities of a repository.
func gitBugRefs(repo repository.RepoData) (map[string]string, error) {
	out := map[string]string{}
	for _, prefix := range []string{"refs/bugs/", "refs/identities/"} {
		names, err := repo.ListRefs(prefix)
		if err != nil {
			return nil, err
		}
		for _, n := range names {
			h, err := repo.ResolveRef(n)
			if err != nil {
				return nil, err
			}
			out[n] = string(h)
		}
	}
	return out, nil
}

// editClock reads the current value of the repository's bug edit clock (0 when it does not exist yet).
func editClock(repo repository.RepoClock) (uint64, error) {
	clocks, err := repo.AllClocks()
	if err != nil {
		return 0, err
	}
	if c, ok := clocks["bugs-edit"]; ok {
		return uint64(c.Time()), nil
	}
	return 0, nil
}

func resolvers(repo repository.ClockedRepo) entity.Resolvers {
	return entity.Resolvers{&identity.Identity{}: identity.NewSimpleResolver(repo)}
}

// Build creates repository A under dir with the history, the spacer commits that move the
// logical clock, and the tested commit.
//
// kind "" : the tested commit carries an operation (a comment by the author).
// kind "join": the tested commit is what merge() writes to join two branches: two parents, an
// operation pack without operations in the author's name, the next value of the edit clock, signed
// with the author's signing key if there is one (same exported calls as operationPack.Write:
// StoreData, StoreTree, StoreSignedCommit / StoreCommit). The two branches are commits by bob.
//
// late: the author's identity is created after bugs exist (a second user joining), so that its
// first version already records the bug clocks; otherwise it is created in the empty repository.
//
// init: key the author's first identity version already declares ("" = none); the first two
// commits of the bug are then signed with it.
//
// kind "tree:<order>": the tested commit (with an operation) points to a tree holding the usual
// entries stored in another order (raw tree object), and is signed after the tree was built.
func Build(dir string, keys Keys, history []string, pos Position, signer string, kind string, late bool, init string) (*Built, error) {
	vctl.SetActor("writer")
	repo, err := repository.InitGoGitRepo(filepath.Join(dir, "A"), world.Namespace)
	if err != nil {
		return nil, err
	}
	defer repo.Close()
	now := func() int64 { return vtime.Now().Unix() }
	bob, err := identity.NewIdentity(repo, "Bob", "bob@example.org")
	if err != nil {
		return nil, err
	}
	if err := bob.Commit(repo); err != nil {
		return nil, err
	}
	nobody := func(i *identity.Identity) signingAuthor { return signingAuthor{i, nil} }
	// bob's bug only moves the logical clock
	spacerBug, _, err := bug.Create(nobody(bob), now(), "spacer", "moves the clock", nil, nil)
	if err != nil {
		return nil, err
	}
	spacer := func() error {
		if spacerBug.NeedCommit() {
			return spacerBug.Commit(repo)
		}
		if _, _, err := bug.AddComment(spacerBug, nobody(bob), now(), "tick", nil, nil); err != nil {
			return err
		}
		return spacerBug.Commit(repo)
	}
	if late {
		for i := 0; i < 2; i++ {
			if err := spacer(); err != nil {
				return nil, err
			}
		}
	}
	var recorded []uint64
	t0, err := editClock(repo)
	if err != nil {
		return nil, err
	}
	recorded = append(recorded, t0)
	var initKeys []*identity.Key
	var initKey *identity.Key
	if init != "" {
		initKey = keys[init]
		initKeys = []*identity.Key{initKey}
	}
	alice, err := identity.NewIdentityFull(repo, "Alice", "alice@example.org", "", "", initKeys)
	if err != nil {
		return nil, err
	}
	if err := alice.Commit(repo); err != nil {
		return nil, err
	}
	// the bug under test: create + one more commit, both while no key was ever declared
	b, _, err := bug.Create(signingAuthor{alice, initKey}, now(), "signed bug", "message", nil, nil)
	if err != nil {
		return nil, err
	}
	if err := b.Commit(repo); err != nil {
		return nil, err
	}
	if _, _, err := bug.AddComment(b, signingAuthor{alice, initKey}, now(), "filler", nil, nil); err != nil {
		return nil, err
	}
	if err := b.Commit(repo); err != nil {
		return nil, err
	}
	out := &Built{Dir: filepath.Join(dir, "A"), Bug: b.Id(), Author: alice.Id()}
	defer func() { out.Clock = recorded }()
	if out.Early, err = gitBugRefs(repo); err != nil {
		return nil, err
	}

	// who signs: decided once the key sets are known
	var sets [][]string // key set of version j
	set := []string{}
	if init != "" {
		set = []string{init}
	}
	sets = append(sets, set)
	for _, ch := range history {
		next, ok := applyChange(set, ch)
		if !ok {
			return nil, fmt.Errorf("history not applicable")
		}
		set = next
		sets = append(sets, set)
	}
	// key set the statement puts in force at the tested commit (by construction; the oracle
	// recomputes it from the stored data)
	inForce := sets[pos.J]
	var signKey *identity.Key
	switch signer {
	case "K1", "K2", "K3":
		signKey = keys[signer]
		out.SignedBy = signer
	case "nobody":
	case "altered-tree", "altered-parent", "in-force":
		if len(inForce) == 0 {
			out.Skip = "no key in force"
			return out, nil
		}
		signKey = keys[inForce[0]]
		out.SignedBy = inForce[0]
	default:
		if !strings.HasPrefix(signer, "raw:") {
			return nil, fmt.Errorf("unknown signer %s", signer)
		}
		if len(inForce) == 0 {
			out.Skip = "no key in force"
			return out, nil
		}
		signKey = keys[inForce[0]]
		out.SignedBy = inForce[0]
	}
	ref := "refs/bugs/" + b.Id().String()
	tested := func() error {
		if kind == "join" {
			return join(repo, out, ref, b.Id(), alice, bob, signKey, now)
		}
		if _, _, err := bug.AddComment(b, signingAuthor{alice, signKey}, now(), "the tested commit", nil, nil); err != nil {
			return err
		}
		if err := b.Commit(repo); err != nil {
			return err
		}
		h, err := repo.ResolveRef(ref)
		out.Tested = h
		if err == nil && strings.HasPrefix(kind, "tree:") {
			err = reorderTree(repo, out, ref, strings.TrimPrefix(kind, "tree:"), signKey)
		}
		return err
	}
	if pos.J == 0 {
		if err := tested(); err != nil {
			return nil, err
		}
	}
	for j, ch := range history {
		j++
		if pos.J == j && pos.At {
			// the tested commit takes the logical time the next version will record
			if err := tested(); err != nil {
				return nil, err
			}
		} else if err := spacer(); err != nil {
			return nil, err
		}
		ks := sets[j]
		tj, err := editClock(repo)
		if err != nil {
			return nil, err
		}
		recorded = append(recorded, tj)
		if err := alice.Mutate(repo, func(m *identity.Mutator) {
			if ch == "name" {
				m.Name = fmt.Sprintf("Alice %d", j)
				return
			}
			m.Keys = nil
			for _, k := range ks {
				m.Keys = append(m.Keys, keys[k])
			}
		}); err != nil {
			return nil, err
		}
		if err := alice.Commit(repo); err != nil {
			return nil, err
		}
		if pos.J == j && !pos.At {
			if err := tested(); err != nil {
				return nil, err
			}
			if err := spacer(); err != nil {
				return nil, err
			}
		}
	}
	if out.Tested == "" {
		return nil, fmt.Errorf("tested commit not made")
	}
	if strings.HasPrefix(signer, "altered-") {
		if err := alter(out, signer); err != nil {
			return nil, err
		}
	}
	if strings.HasPrefix(signer, "raw:") {
		if err := rawAlter(out, strings.TrimPrefix(signer, "raw:"), keys); err != nil {
			return nil, err
		}
	}
	return out, nil
}

// join writes two concurrent commits by bob on top of the current head and joins them with a commit
// in alice's name, exactly as merge() scenario 5 does.
func join(repo *repository.GoGitRepo, out *Built, ref string, id entity.Id, alice, bob *identity.Identity, signKey *identity.Key, now func() int64) error {
	base, err := repo.ResolveRef(ref)
	if err != nil {
		return err
	}
	var heads []repository.Hash
	for i := 1; i <= 2; i++ {
		if err := repo.UpdateRef(ref, base); err != nil {
			return err
		}
		br, err := bug.Read(repo, id)
		if err != nil {
			return err
		}
		if _, _, err := bug.AddComment(br, signingAuthor{bob, nil}, now(), fmt.Sprintf("branch %d", i), nil, nil); err != nil {
			return err
		}
		if err := br.Commit(repo); err != nil {
			return err
		}
		h, err := repo.ResolveRef(ref)
		if err != nil {
			return err
		}
		heads = append(heads, h)
	}
	editTime, err := repo.Increment("bugs-edit")
	if err != nil {
		return err
	}
	empty, err := repo.StoreData([]byte{})
	if err != nil {
		return err
	}
	pack, err := json.Marshal(struct {
		Author     identity.Interface `json:"author"`
		Operations []json.RawMessage  `json:"ops"`
	}{Author: alice})
	if err != nil {
		return err
	}
	blob, err := repo.StoreData(pack)
	if err != nil {
		return err
	}
	tree, err := repo.StoreTree([]repository.TreeEntry{
		{ObjectType: repository.Blob, Hash: empty, Name: "version-4"},
		{ObjectType: repository.Blob, Hash: blob, Name: "ops"},
		{ObjectType: repository.Blob, Hash: empty, Name: fmt.Sprintf("edit-clock-%d", editTime)},
	})
	if err != nil {
		return err
	}
	var h repository.Hash
	if signKey != nil {
		h, err = repo.StoreSignedCommit(tree, signKey.PGPEntity(), heads...)
	} else {
		h, err = repo.StoreCommit(tree, heads...)
	}
	if err != nil {
		return err
	}
	out.Tested = h
	return repo.UpdateRef(ref, h)
}

// otherTree stores a valid pack tree that differs from the commit's: same entries, the operation
// pack with other bytes (another comment text; for a join commit "ops":[] instead of null).
func otherTree(r *gogit.Repository, c *object.Commit) (plumbing.Hash, error) {
	tree, err := c.Tree()
	if err != nil {
		return plumbing.ZeroHash, err
	}
	nt := object.Tree{}
	for _, e := range tree.Entries {
		if e.Name == "ops" {
			blob, err := r.BlobObject(e.Hash)
			if err != nil {
				return plumbing.ZeroHash, err
			}
			rd, _ := blob.Reader()
			data, _ := io.ReadAll(rd)
			rd.Close()
			data = bytes.Replace(data, []byte("the tested commit"), []byte("the altered commit"), 1)
			data = bytes.Replace(data, []byte(`"ops":null`), []byte(`"ops":[]`), 1) // join commit: still an empty pack, other bytes
			o := r.Storer.NewEncodedObject()
			o.SetType(plumbing.BlobObject)
			w, _ := o.Writer()
			w.Write(data)
			w.Close()
			h, err := r.Storer.SetEncodedObject(o)
			if err != nil {
				return plumbing.ZeroHash, err
			}
			e.Hash = h
		}
		nt.Entries = append(nt.Entries, e)
	}
	o := r.Storer.NewEncodedObject()
	o.SetType(plumbing.TreeObject)
	if err := nt.Encode(o); err != nil {
		return plumbing.ZeroHash, err
	}
	return r.Storer.SetEncodedObject(o)
}

// RawAlterations of a validly signed commit, written as raw commit objects (the bytes are exactly
// the ones chosen here): headers added after or before the gpgsig block, the block moved, bytes
// appended to the message, a second gpgsig block.
var RawAlterations = []string{
	"extra-tree-after-gpgsig", "extra-parent-after-gpgsig", "extra-author-after-gpgsig", "extra-committer-after-gpgsig", "extra-unknown-after-gpgsig",
	"extra-tree-before-gpgsig", "extra-parent-before-gpgsig", "extra-author-before-gpgsig", "extra-committer-before-gpgsig", "extra-unknown-before-gpgsig",
	"moved-gpgsig-after-tree", "moved-gpgsig-first",
	"message-appended",
	"second-gpgsig-copy-after", "second-gpgsig-stranger-first", "second-gpgsig-stranger-after",
}

// RawUnsure says whether the reference rule leaves the class open (headers the decoded commit does
// not use, position of the signature header): only "no crash" and "both readers agree" are required.
func RawUnsure(class string) bool {
	return strings.HasPrefix(class, "extra-unknown-") || strings.HasPrefix(class, "moved-gpgsig-")
}

// rawAlter replaces the tested (validly signed) commit by a hand-written commit object.
func rawAlter(b *Built, class string, keys Keys) error {
	r, err := gogit.PlainOpen(b.Dir)
	if err != nil {
		return err
	}
	h := plumbing.NewHash(string(b.Tested))
	obj, err := r.Storer.EncodedObject(plumbing.CommitObject, h)
	if err != nil {
		return err
	}
	rd, err := obj.Reader()
	if err != nil {
		return err
	}
	raw, err := io.ReadAll(rd)
	rd.Close()
	if err != nil {
		return err
	}
	start := bytes.Index(raw, []byte("\ngpgsig "))
	if start < 0 {
		return fmt.Errorf("tested commit carries no signature header")
	}
	end := start + bytes.Index(raw[start:], []byte("\n\n"))
	pre, sig, tail := string(raw[:start]), string(raw[start:end]), string(raw[end:]) // tail = "\n\n" + message
	c, err := r.CommitObject(h)
	if err != nil {
		return err
	}
	header := func(kind string) (string, error) {
		switch kind {
		case "tree":
			th, err := otherTree(r, c)
			return "\ntree " + th.String(), err
		case "parent":
			root := c
			for len(root.ParentHashes) > 0 {
				if root, err = r.CommitObject(root.ParentHashes[0]); err != nil {
					return "", err
				}
			}
			return "\nparent " + root.Hash.String(), nil
		case "author":
			return "\nauthor Mallory <mallory@example.org> 1 +0000", nil
		case "committer":
			return "\ncommitter Mallory <mallory@example.org> 1 +0000", nil
		case "unknown":
			return "\nx-c08-unknown-header some value", nil
		}
		return "", fmt.Errorf("unknown header kind %s", kind)
	}
	strangerBlock := func() (string, error) {
		var buf bytes.Buffer
		if err := openpgp.ArmoredDetachSign(&buf, keys["K3"].PGPEntity(), strings.NewReader(pre+tail), nil); err != nil {
			return "", err
		}
		lines := strings.Split(strings.TrimSuffix(buf.String(), "\n"), "\n")
		return "\ngpgsig " + strings.Join(lines, "\n "), nil
	}
	var out string
	parts := strings.Split(class, "-")
	switch {
	case strings.HasPrefix(class, "extra-") && strings.HasSuffix(class, "-after-gpgsig"):
		hd, err := header(parts[1])
		if err != nil {
			return err
		}
		out = pre + sig + hd + tail
	case strings.HasPrefix(class, "extra-") && strings.HasSuffix(class, "-before-gpgsig"):
		hd, err := header(parts[1])
		if err != nil {
			return err
		}
		out = pre + hd + sig + tail
	case class == "moved-gpgsig-after-tree":
		nl := strings.Index(pre, "\n")
		if nl < 0 {
			return fmt.Errorf("commit with a single header")
		}
		out = pre[:nl] + sig + pre[nl:] + tail
	case class == "moved-gpgsig-first":
		out = sig[1:] + "\n" + pre + tail
	case class == "message-appended":
		out = pre + sig + tail + "appended after signing\n"
	case class == "second-gpgsig-copy-after":
		out = pre + sig + sig + tail
	case class == "second-gpgsig-stranger-first", class == "second-gpgsig-stranger-after":
		sb, err := strangerBlock()
		if err != nil {
			return err
		}
		if class == "second-gpgsig-stranger-first" {
			out = pre + sb + sig + tail
		} else {
			out = pre + sig + sb + tail
		}
	default:
		return fmt.Errorf("unknown raw alteration %s", class)
	}
	o := r.Storer.NewEncodedObject()
	o.SetType(plumbing.CommitObject)
	w, err := o.Writer()
	if err != nil {
		return err
	}
	if _, err := w.Write([]byte(out)); err != nil {
		return err
	}
	if err := w.Close(); err != nil {
		return err
	}
	nh, err := r.Storer.SetEncodedObject(o)
	if err != nil {
		return err
	}
	if nh == h {
		return fmt.Errorf("raw alteration %s left the commit unchanged", class)
	}
	b.Tested = repository.Hash(nh.String())
	return r.Storer.SetReference(plumbing.NewHashReference(plumbing.ReferenceName("refs/bugs/"+b.Bug.String()), nh))
}

// TreeOrders are the orders in which the three entries of the tested commit's tree (edit clock,
// operation pack, format version; canonical git order: edit-clock-N, ops, version-4) are stored:
// all five non-canonical permutations.
var TreeOrders = map[string][]string{
	"ops-first":                {"ops", "edit-clock-", "version-"},
	"ops-first-version-second": {"ops", "version-", "edit-clock-"},
	"version-first":            {"version-", "edit-clock-", "ops"},
	"reverse":                  {"version-", "ops", "edit-clock-"},
	"ops-last":                 {"edit-clock-", "version-", "ops"},
}

// reorderTree replaces the tested commit by one over a raw tree object holding the same entries in
// the given order, with the same parents, signed (or not) after the tree was built, through the
// calls operationPack.Write makes (StoreSignedCommit / StoreCommit).
func reorderTree(repo *repository.GoGitRepo, b *Built, ref string, order string, signKey *identity.Key) error {
	prefixes, ok := TreeOrders[order]
	if !ok {
		return fmt.Errorf("unknown tree order %s", order)
	}
	r, err := gogit.PlainOpen(b.Dir)
	if err != nil {
		return err
	}
	c, err := r.CommitObject(plumbing.NewHash(string(b.Tested)))
	if err != nil {
		return err
	}
	tree, err := c.Tree()
	if err != nil {
		return err
	}
	if len(tree.Entries) != len(prefixes) {
		return fmt.Errorf("tested commit with %d tree entries", len(tree.Entries))
	}
	var raw bytes.Buffer
	for _, p := range prefixes {
		found := false
		for _, e := range tree.Entries {
			if strings.HasPrefix(e.Name, p) {
				fmt.Fprintf(&raw, "%o %s", uint32(e.Mode), e.Name)
				raw.WriteByte(0)
				raw.Write(e.Hash[:])
				found = true
			}
		}
		if !found {
			return fmt.Errorf("no %s entry in the tested commit's tree", p)
		}
	}
	o := r.Storer.NewEncodedObject()
	o.SetType(plumbing.TreeObject)
	w, err := o.Writer()
	if err != nil {
		return err
	}
	if _, err := w.Write(raw.Bytes()); err != nil {
		return err
	}
	if err := w.Close(); err != nil {
		return err
	}
	th, err := r.Storer.SetEncodedObject(o)
	if err != nil {
		return err
	}
	if th == c.TreeHash {
		return fmt.Errorf("tree order %s is the canonical one", order)
	}
	var parents []repository.Hash
	for _, p := range c.ParentHashes {
		parents = append(parents, repository.Hash(p.String()))
	}
	var h repository.Hash
	if signKey != nil {
		h, err = repo.StoreSignedCommit(repository.Hash(th.String()), signKey.PGPEntity(), parents...)
	} else {
		h, err = repo.StoreCommit(repository.Hash(th.String()), parents...)
	}
	if err != nil {
		return err
	}
	b.Tested = h
	return repo.UpdateRef(ref, h)
}

// alter rewrites the tested commit after it was signed, keeping the signature header: either its
// tree (the comment text inside the operation pack) or its parent (the filler commit is skipped).
func alter(b *Built, how string) error {
	r, err := gogit.PlainOpen(b.Dir)
	if err != nil {
		return err
	}
	c, err := r.CommitObject(plumbing.NewHash(string(b.Tested)))
	if err != nil {
		return err
	}
	n := *c
	switch how {
	case "altered-tree":
		th, err := otherTree(r, c)
		if err != nil {
			return err
		}
		n.TreeHash = th
	case "altered-parent":
		if len(c.ParentHashes) == 2 {
			n.ParentHashes = []plumbing.Hash{c.ParentHashes[1], c.ParentHashes[0]} // join commit: parents swapped
			break
		}
		p, err := r.CommitObject(c.ParentHashes[0])
		if err != nil {
			return err
		}
		n.ParentHashes = p.ParentHashes // skip the filler commit
	}
	o := r.Storer.NewEncodedObject()
	o.SetType(plumbing.CommitObject)
	if err := n.Encode(o); err != nil {
		return err
	}
	h, err := r.Storer.SetEncodedObject(o)
	if err != nil {
		return err
	}
	b.Tested = repository.Hash(h.String())
	return r.Storer.SetReference(plumbing.NewHashReference(plumbing.ReferenceName("refs/bugs/"+b.Bug.String()), h))
}

// ---- reference model -------------------------------------------------------------------------

// Version is one stored identity version as the statement sees it.
type Version struct {
	Time uint64   // recorded logical time of the bug edit clock (carried over when absent)
	Keys []string // armored public keys
}

// readVersions reads the raw version blobs of the identity, oldest first.
func readVersions(repo repository.RepoData, id entity.Id) ([]Version, error) {
	h, err := repo.ResolveRef("refs/identities/" + id.String())
	if err != nil {
		return nil, err
	}
	var rev []Version
	for {
		c, err := repo.ReadCommit(h)
		if err != nil {
			return nil, err
		}
		entries, err := repo.ReadTree(c.TreeHash)
		if err != nil {
			return nil, err
		}
		var v struct {
			Times map[string]uint64 `json:"times"`
			Keys  []string          `json:"pub_keys"`
		}
		for _, e := range entries {
			if e.Name == "version" {
				data, err := repo.ReadData(e.Hash)
				if err != nil {
					return nil, err
				}
				if err := json.Unmarshal(data, &v); err != nil {
					return nil, err
				}
			}
		}
		t, ok := v.Times["bugs-edit"]
		ver := Version{Time: t, Keys: v.Keys}
		if !ok {
			ver.Time = ^uint64(0) // marker: carried over below
		}
		rev = append(rev, ver)
		if len(c.Parents) == 0 {
			break
		}
		h = c.Parents[0]
	}
	var out []Version
	last := uint64(0)
	for i := len(rev) - 1; i >= 0; i-- {
		v := rev[i]
		if v.Time == ^uint64(0) {
			v.Time = last
		}
		last = v.Time
		out = append(out, v)
	}
	return out, nil
}

// KeysInForce is the statement's definition: the key set of the last version whose recorded
// logical time is <= T.
func KeysInForce(versions []Version, T uint64) []string {
	var keys []string
	for _, v := range versions {
		if v.Time > T {
			break
		}
		keys = v.Keys
	}
	return keys
}

// commitTime reads the edit clock of a commit from its tree.
func commitTime(repo repository.RepoData, treeHash repository.Hash) (uint64, error) {
	entries, err := repo.ReadTree(treeHash)
	if err != nil {
		return 0, err
	}
	for _, e := range entries {
		if strings.HasPrefix(e.Name, "edit-clock-") {
			return strconv.ParseUint(strings.TrimPrefix(e.Name, "edit-clock-"), 10, 64)
		}
	}
	return 0, fmt.Errorf("no edit clock")
}

// verifies says whether the commit as stored carries a signature that verifies under the armored
// public key, using the OpenPGP packet primitives directly (no git-bug code).
func verifies(dir string, h repository.Hash, armoredPub string) (bool, error) {
	r, err := gogit.PlainOpen(dir)
	if err != nil {
		return false, err
	}
	c, err := r.CommitObject(plumbing.NewHash(string(h)))
	if err != nil {
		return false, err
	}
	if c.PGPSignature == "" {
		return false, nil
	}
	block, err := armor.Decode(strings.NewReader(armoredPub))
	if err != nil {
		return false, err
	}
	p, err := packet.Read(block.Body)
	if err != nil {
		return false, err
	}
	pub, ok := p.(*packet.PublicKey)
	if !ok {
		return false, fmt.Errorf("not a public key")
	}
	sblock, err := armor.Decode(strings.NewReader(c.PGPSignature))
	if err != nil {
		return false, nil
	}
	sp, err := packet.Read(sblock.Body)
	if err != nil {
		return false, nil
	}
	sig, ok := sp.(*packet.Signature)
	if !ok {
		return false, nil
	}
	enc := &plumbing.MemoryObject{}
	if err := c.EncodeWithoutSignature(enc); err != nil {
		return false, err
	}
	rd, _ := enc.Reader()
	hash := sig.Hash.New()
	if _, err := io.Copy(hash, rd); err != nil {
		return false, err
	}
	return pub.VerifySignature(hash, sig) == nil, nil
}

// Expected is the verdict the statement prescribes for reading the bug, with the reasons.
type Expected struct {
	Accept      bool     `json:"accept"`
	T           uint64   `json:"t"`
	Times       []uint64 `json:"version_times"`        // clock of the repository when each version was created
	Stored      []uint64 `json:"version_times_stored"` // what the versions recorded
	TimesDiffer bool     `json:"stored_times_differ,omitempty"`
	InForce     int      `json:"keys_in_force"`
	Valid       bool     `json:"signature_valid_under_a_key_in_force"`
	Signed      bool     `json:"signed"`
	AtBound     bool     `json:"at_version_time"`
	Parents     int      `json:"parents_of_tested_commit"`
}

// packAuthor reads the author id of the operation pack of a commit.
func packAuthor(repo repository.RepoData, treeHash repository.Hash) (string, error) {
	entries, err := repo.ReadTree(treeHash)
	if err != nil {
		return "", err
	}
	for _, e := range entries {
		if e.Name == "ops" {
			data, err := repo.ReadData(e.Hash)
			if err != nil {
				return "", err
			}
			var p struct {
				Author struct {
					Id string `json:"id"`
				} `json:"author"`
			}
			if err := json.Unmarshal(data, &p); err != nil {
				return "", err
			}
			return p.Author.Id, nil
		}
	}
	return "", fmt.Errorf("no ops entry")
}

// Expect evaluates the reference on the stored data: every commit of the bug must be acceptable.
func Expect(b *Built) (Expected, error) { return ExpectKnowing(b, -1) }

// ExpectKnowing is Expect for a reader that knows only the first `known` versions of the author's
// identity (known < 0: all of them).
func ExpectKnowing(b *Built, known int) (Expected, error) {
	repo, err := repository.OpenGoGitRepo(b.Dir, world.Namespace, nil)
	if err != nil {
		return Expected{}, err
	}
	defer repo.Close()
	versions, err := readVersions(repo, b.Author)
	if err != nil {
		return Expected{}, err
	}
	raw, err := gogit.PlainOpen(b.Dir)
	if err != nil {
		return Expected{}, err
	}
	exp := Expected{Accept: true}
	for _, v := range versions {
		exp.Stored = append(exp.Stored, v.Time)
	}
	// a key counts from the logical time at which the version that introduced it was created: the
	// clock read right before NewIdentity / Mutate, not what the version claims
	if len(b.Clock) == len(versions) {
		for i := range versions {
			versions[i].Time = b.Clock[i]
		}
	} else {
		return exp, fmt.Errorf("%d versions stored, %d created", len(versions), len(b.Clock))
	}
	if known >= 0 && known < len(versions) {
		versions = versions[:known]
		exp.Stored = exp.Stored[:known]
	}
	for i, v := range versions {
		exp.Times = append(exp.Times, v.Time)
		if v.Time != exp.Stored[i] {
			exp.TimesDiffer = true
		}
	}
	// all commits of the bug
	seen := map[repository.Hash]bool{}
	stack := []repository.Hash{b.Tested}
	for len(stack) > 0 {
		h := stack[len(stack)-1]
		stack = stack[:len(stack)-1]
		if seen[h] {
			continue
		}
		seen[h] = true
		// the commit as go-git decodes the stored object (what every reader of the repository uses);
		// git-bug's own ReadCommit is not consulted by the reference
		c, err := raw.CommitObject(plumbing.NewHash(string(h)))
		if err != nil {
			return exp, err
		}
		treeHash := repository.Hash(c.TreeHash.String())
		T, err := commitTime(repo, treeHash)
		if err != nil {
			return exp, err
		}
		author, err := packAuthor(repo, treeHash)
		if err != nil {
			return exp, err
		}
		var keys []string
		if author == b.Author.String() { // bob never declares a key
			keys = KeysInForce(versions, T)
		}
		ok := len(keys) == 0
		valid := false
		for _, k := range keys {
			v, err := verifies(b.Dir, h, k)
			if err != nil {
				return exp, err
			}
			if v {
				valid = true
			}
		}
		if valid {
			ok = true
		}
		if h == b.Tested {
			exp.T, exp.InForce, exp.Valid = T, len(keys), valid
			exp.Signed = c.PGPSignature != ""
			exp.Parents = len(c.ParentHashes)
			for _, v := range versions[1:] {
				if v.Time == T {
					exp.AtBound = true
				}
			}
		}
		if !ok {
			exp.Accept = false
		}
		for _, p := range c.ParentHashes {
			stack = append(stack, repository.Hash(p.String()))
		}
	}
	return exp, nil
}
