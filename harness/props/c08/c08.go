// Package c08 checks property C08: commits by authors with signing keys must carry a valid
// signature. All histories of the author's identity of up to three key changes are crossed with
// every position of a tested commit relative to the versions and with every kind of signer; the
// bug is then read by a reader that resolves the author from git (public keys only), with
// bug.Read and with MergeAll on a second repository, and the verdict is compared with the
// statement's keysInForce(history, T) evaluated on the stored data.
package c08

import (
	"encoding/json"
	"flag"
	"fmt"
	"os"
	"path/filepath"
	"regexp"
	"sort"
	"strings"
	"time"

	gogit "github.com/go-git/go-git/v5"
	"github.com/go-git/go-git/v5/plumbing"

	"github.com/MichaelMure/git-bug/cache"
	"github.com/MichaelMure/git-bug/entities/bug"
	"github.com/MichaelMure/git-bug/entities/identity"
	"github.com/MichaelMure/git-bug/entity"
	"github.com/MichaelMure/git-bug/repository"
	"github.com/MichaelMure/git-bug/verifshim/vctl"

	"verifharness/evidence"
	"verifharness/subproc"
	"verifharness/world"
)

// Case is one execution.
type Case struct {
	H      []string `json:"h"`
	Pos    Position `json:"pos"`
	Signer string   `json:"signer"`
	Reader string   `json:"reader"`         // "read": bug.Read in the repository; "merge": identity+bug MergeAll on a second repository
	Kind   string   `json:"kind,omitempty"` // "": commit with an operation; "join": two-parent commit with an empty pack, as merge() writes it
	Init   string   `json:"init,omitempty"` // key the author's first identity version already declares
	Late   bool     `json:"late,omitempty"` // the author's identity is created after bugs exist (its first version records the bug clocks)
}

func (c Case) ID() string { b, _ := json.Marshal(c); return string(b) }

// Obs is what a worker reports.
type Obs struct {
	Skip     string   `json:"skip,omitempty"`
	Harness  string   `json:"harness,omitempty"`
	Expected Expected `json:"expected"`
	SignedBy string   `json:"signed_by,omitempty"`
	Verdict  string   `json:"verdict"` // "accepted" or "error"
	Err      string   `json:"err,omitempty"`
	Verdict2 string   `json:"verdict_merge,omitempty"` // reader "both": Verdict is bug.Read's, this one MergeAll's
	Err2     string   `json:"err_merge,omitempty"`
}

type runner struct {
	keys    Keys
	scratch string
	seed    uint64
	n       int
}

func (r *runner) Run(caseID string) Obs {
	var c Case
	if err := json.Unmarshal([]byte(caseID), &c); err != nil {
		return Obs{Harness: "bad case id"}
	}
	vctl.Activate(r.seed, 0)
	dir := filepath.Join(r.scratch, "case")
	_ = os.RemoveAll(dir)
	if err := os.MkdirAll(dir, 0o755); err != nil {
		return Obs{Harness: err.Error()}
	}
	b, err := Build(dir, r.keys, c.H, c.Pos, c.Signer, c.Kind, c.Late, c.Init)
	if err != nil {
		return Obs{Harness: "build: " + err.Error()}
	}
	if b.Skip != "" {
		return Obs{Skip: b.Skip}
	}
	exp, err := Expect(b)
	if err != nil {
		return Obs{Harness: "reference: " + err.Error()}
	}
	vctl.SetActor("reader")
	if c.Reader == "both" {
		// classes the reference leaves open: both readers, one after the other, must agree
		o1 := r.reader(dir, b, exp, "read")
		if o1.Harness != "" {
			return o1
		}
		o2 := r.reader(dir, b, exp, "merge")
		if o2.Harness != "" {
			return o2
		}
		o1.Verdict2, o1.Err2 = o2.Verdict, o2.Err
		return o1
	}
	if strings.HasPrefix(c.Reader, "session:") {
		return r.session(dir, b, exp, strings.TrimPrefix(c.Reader, "session:"))
	}
	return r.reader(dir, b, exp, c.Reader)
}

// session is the third reader: one long-lived cache.RepoCache on a victim replica. It first pulls
// the early state (the author's first identity version, the first two commits of the bug: the
// author is resolved through the cache's resolvers), then, still open, pulls the rest:
//
//	order "one":       identity versions and commits in one pull
//	order "id-first":  the identity versions in a first pull, the commits in a second one
//	order "bug-first": the commits first (judged with the identity version the session knows), the identity versions after
//
// The remote is a copy of repository A whose refs are moved from the early to the final state.
func (r *runner) session(dir string, b *Built, exp Expected, order string) Obs {
	obs := Obs{Expected: exp, SignedBy: b.SignedBy}
	dirR := filepath.Join(dir, "R")
	if err := world.CopyTree(b.Dir, dirR); err != nil {
		return Obs{Harness: err.Error()}
	}
	repoA, err := repository.OpenGoGitRepo(b.Dir, world.Namespace, nil)
	if err != nil {
		return Obs{Harness: err.Error()}
	}
	final, err := gitBugRefs(repoA)
	repoA.Close()
	if err != nil {
		return Obs{Harness: err.Error()}
	}
	rr, err := gogit.PlainOpen(dirR)
	if err != nil {
		return Obs{Harness: err.Error()}
	}
	serve := func(idRefs, bugRefs map[string]string) error {
		for name := range final {
			want := bugRefs[name]
			if strings.HasPrefix(name, "refs/identities/") {
				want = idRefs[name]
			}
			if want == "" {
				if err := rr.Storer.RemoveReference(plumbing.ReferenceName(name)); err != nil {
					return err
				}
				continue
			}
			if err := rr.Storer.SetReference(plumbing.NewHashReference(plumbing.ReferenceName(name), plumbing.NewHash(want))); err != nil {
				return err
			}
		}
		return nil
	}
	// the victim: its own user, a remote, a cache session
	repoB, err := repository.InitGoGitRepo(filepath.Join(dir, "B"), world.Namespace)
	if err != nil {
		return Obs{Harness: err.Error()}
	}
	defer repoB.Close()
	carol, err := identity.NewIdentity(repoB, "Carol", "carol@example.org")
	if err != nil {
		return Obs{Harness: err.Error()}
	}
	if err := carol.Commit(repoB); err != nil {
		return Obs{Harness: err.Error()}
	}
	if err := identity.SetUserIdentity(repoB, carol); err != nil {
		return Obs{Harness: err.Error()}
	}
	if err := repoB.AddRemote("origin", world.Scheme+"://"+filepath.Join(dirR, ".git")); err != nil {
		return Obs{Harness: err.Error()}
	}
	rc, err := cache.NewRepoCacheNoEvents(repoB)
	if err != nil {
		return Obs{Harness: "open cache: " + err.Error()}
	}
	pull := func() (map[entity.Id]entity.MergeResult, string) {
		if _, err := rc.Fetch("origin"); err != nil {
			return nil, "fetch: " + err.Error()
		}
		out := map[entity.Id]entity.MergeResult{}
		n := 0
		for res := range rc.MergeAll("origin") {
			n++
			if res.Id == "" && res.Err != nil {
				return nil, "merge: " + res.Err.Error()
			}
			out[res.Id] = res
		}
		if refs, _ := repoB.ListRefs("refs/remotes/origin/"); n < len(refs) {
			time.Sleep(1500 * time.Millisecond) // a producer died: let the process go down with it
			return nil, "merge stream ended early"
		}
		return out, ""
	}
	visible := func() (bool, string) {
		bc, err := rc.Bugs().Resolve(b.Bug)
		if err != nil {
			return false, err.Error()
		}
		for _, c := range bc.Snapshot().Comments {
			if strings.Contains(c.Message, "the tested commit") || strings.Contains(c.Message, "the altered commit") {
				return true, ""
			}
		}
		return false, ""
	}
	// early state
	if err := serve(b.Early, b.Early); err != nil {
		return Obs{Harness: err.Error()}
	}
	res, herr := pull()
	if herr != "" {
		return Obs{Harness: "early pull: " + herr}
	}
	if st := res[b.Bug]; st.Err != nil || st.Status != entity.MergeStatusNew {
		return Obs{Harness: fmt.Sprintf("early pull: bug reported %v %v %s", st.Status, st.Err, st.Reason)}
	}
	if v, e := visible(); v || e != "" {
		return Obs{Harness: "early state: tested commit visible / bug not resolvable: " + e}
	}
	// the rest
	var judged entity.MergeResult
	switch order {
	case "one":
		if err := serve(final, final); err != nil {
			return Obs{Harness: err.Error()}
		}
		if res, herr = pull(); herr != "" {
			return Obs{Harness: herr}
		}
		judged = res[b.Bug]
	case "id-first":
		if err := serve(final, b.Early); err != nil {
			return Obs{Harness: err.Error()}
		}
		if res, herr = pull(); herr != "" {
			return Obs{Harness: herr}
		}
		if err := serve(final, final); err != nil {
			return Obs{Harness: err.Error()}
		}
		if res, herr = pull(); herr != "" {
			return Obs{Harness: herr}
		}
		judged = res[b.Bug]
	case "bug-first":
		// only the bug under test moves; the session judges it with the identity version it has
		bugsFirst := map[string]string{}
		for k, v := range b.Early {
			bugsFirst[k] = v
		}
		bugsFirst["refs/bugs/"+b.Bug.String()] = final["refs/bugs/"+b.Bug.String()]
		if err := serve(b.Early, bugsFirst); err != nil {
			return Obs{Harness: err.Error()}
		}
		if res, herr = pull(); herr != "" {
			return Obs{Harness: herr}
		}
		judged = res[b.Bug]
		early, err := ExpectKnowing(b, 1)
		if err != nil {
			return Obs{Harness: "reference: " + err.Error()}
		}
		obs.Expected = early
		if err := serve(final, final); err != nil {
			return Obs{Harness: err.Error()}
		}
		if _, herr = pull(); herr != "" {
			return Obs{Harness: herr}
		}
	default:
		return Obs{Harness: "unknown session order " + order}
	}
	switch {
	case judged.Err != nil:
		obs.Verdict, obs.Err = "error", judged.Err.Error()
	case judged.Status == entity.MergeStatusInvalid:
		obs.Verdict, obs.Err = "error", judged.Reason
	case judged.Status == entity.MergeStatusUpdated:
		obs.Verdict = "accepted"
	default:
		return Obs{Harness: fmt.Sprintf("the session reported status %v for the bug", judged.Status)}
	}
	v, e := visible()
	if e != "" {
		obs.Verdict2, obs.Err2 = "error", "bug not resolvable through the session: "+e
	} else if v {
		obs.Verdict2 = "accepted"
	} else {
		obs.Verdict2 = "error"
	}
	if err := rc.Close(); err != nil {
		return Obs{Harness: "close cache: " + err.Error()}
	}
	if len(obs.Err) > 300 {
		obs.Err = obs.Err[:300]
	}
	return obs
}

func (r *runner) reader(dir string, b *Built, exp Expected, reader string) Obs {
	obs := Obs{Expected: exp, SignedBy: b.SignedBy}
	switch reader {
	case "read":
		repo, err := repository.OpenGoGitRepo(b.Dir, world.Namespace, nil)
		if err != nil {
			return Obs{Harness: err.Error()}
		}
		defer repo.Close()
		_, err = bug.Read(repo, b.Bug)
		if err != nil {
			obs.Verdict, obs.Err = "error", err.Error()
		} else {
			obs.Verdict = "accepted"
		}
	case "merge":
		// a second repository that received everything by a fetch from A
		dirB := filepath.Join(dir, "B")
		repoB, err := repository.InitGoGitRepo(dirB, world.Namespace)
		if err != nil {
			return Obs{Harness: err.Error()}
		}
		defer repoB.Close()
		if err := repoB.AddRemote("origin", world.Scheme+"://"+filepath.Join(b.Dir, ".git")); err != nil {
			return Obs{Harness: err.Error()}
		}
		if _, err := repoB.FetchRefs("origin", "identities", "bugs"); err != nil {
			return Obs{Harness: "fetch: " + err.Error()}
		}
		n := 0
		for res := range identity.MergeAll(repoB, "origin") {
			n++
			if res.Err != nil || res.Status == entity.MergeStatusInvalid {
				return Obs{Harness: fmt.Sprintf("identity merge: %v %s", res.Err, res.Reason)}
			}
		}
		if refs, _ := repoB.ListRefs("refs/remotes/origin/identities/"); n < len(refs) {
			time.Sleep(1500 * time.Millisecond) // the producer died: let the process go down with it
			return Obs{Harness: "identity merge stream ended early"}
		}
		author, err := identity.ReadLocal(repoB, b.Author)
		if err != nil {
			return Obs{Harness: err.Error()}
		}
		seen := false
		n = 0
		for res := range bug.MergeAll(repoB, resolvers(repoB), "origin", author) {
			n++
			if res.Id != b.Bug {
				continue
			}
			seen = true
			switch {
			case res.Err != nil:
				obs.Verdict, obs.Err = "error", res.Err.Error()
			case res.Status == entity.MergeStatusInvalid:
				obs.Verdict, obs.Err = "error", res.Reason
			case res.Status == entity.MergeStatusNew:
				obs.Verdict = "accepted"
			default:
				obs.Verdict, obs.Err = "error", fmt.Sprintf("unexpected status %v", res.Status)
			}
		}
		if refs, _ := repoB.ListRefs("refs/remotes/origin/bugs/"); n < len(refs) {
			// a panic in MergeAll's goroutine closes the channel before the process dies
			time.Sleep(1500 * time.Millisecond)
			return Obs{Harness: "bug merge stream ended early"}
		}
		if !seen {
			return Obs{Harness: "bug not reported by MergeAll"}
		}
	default:
		return Obs{Harness: "unknown reader"}
	}
	if len(obs.Err) > 300 {
		obs.Err = obs.Err[:300]
	}
	return obs
}

// Worker is the sub-command c08worker.
func Worker(args []string) {
	scratch := world.ScratchRoot()
	defer os.RemoveAll(scratch)
	world.IsolateEnv(scratch)
	keys, err := LoadKeys()
	if err != nil {
		fmt.Fprintln(os.Stderr, "c08worker:", err)
		os.Exit(2)
	}
	r := &runner{keys: keys, scratch: scratch, seed: uint64(evidence.Seed())}
	subproc.Serve(func(id string) any { return r.Run(id) })
	os.RemoveAll(scratch)
}

// signerClass names the relation of the signer to the history at the tested commit.
func signerClass(c Case) string {
	set := []string{}
	if c.Init != "" {
		set = []string{c.Init}
	}
	sets := [][]string{set}
	for _, ch := range c.H {
		set, _ = applyChange(set, ch)
		sets = append(sets, set)
	}
	in := func(s []string, k string) bool {
		for _, x := range s {
			if x == k {
				return true
			}
		}
		return false
	}
	cur := sets[c.Pos.J]
	if strings.HasPrefix(c.Signer, "raw:") {
		return "raw-altered/" + strings.TrimPrefix(c.Signer, "raw:")
	}
	switch c.Signer {
	case "in-force":
		return "in-force-key"
	case "nobody", "altered-tree", "altered-parent":
		return c.Signer
	case "K3":
		return "stranger"
	}
	if in(cur, c.Signer) {
		return "in-force-key"
	}
	for j := 0; j < c.Pos.J; j++ {
		if in(sets[j], c.Signer) {
			return "removed-key"
		}
	}
	for j := c.Pos.J + 1; j < len(sets); j++ {
		if in(sets[j], c.Signer) {
			return "key-added-later"
		}
	}
	return "never-declared-key"
}

var (
	reHex    = regexp.MustCompile(`[0-9a-f]{7,64}`)
	reDigits = regexp.MustCompile(`[0-9]+`)
	reAddr   = regexp.MustCompile(`0x[0-9a-f]+`)
)

func normalise(s string) string {
	s = reAddr.ReplaceAllString(s, "ADDR")
	s = reHex.ReplaceAllString(s, "H")
	s = reDigits.ReplaceAllString(s, "N")
	s = strings.Join(strings.Fields(s), " ")
	if len(s) > 140 {
		s = s[:140]
	}
	return s
}

func crashSummary(stderr string) string {
	msg, frame := "", ""
	for _, l := range strings.Split(stderr, "\n") {
		if msg == "" && (strings.HasPrefix(l, "panic: ") || strings.HasPrefix(l, "fatal error: ")) {
			msg = strings.TrimSuffix(l, " [recovered]")
			continue
		}
		if msg != "" && frame == "" && strings.HasPrefix(l, "github.com/MichaelMure/git-bug/") && !strings.Contains(l, "verifshim") {
			f := strings.TrimPrefix(l, "github.com/MichaelMure/git-bug/")
			if k := strings.LastIndex(f, "("); k > 0 {
				f = f[:k]
			}
			frame = strings.ReplaceAll(f, "[...]", "")
		}
	}
	if msg == "" {
		return ""
	}
	return normalise(msg) + " @ " + frame
}

// Finding is a violated clause on one case.
type Finding struct{ Oracle, Sig, Detail string }

// situation describes the case without positions: what the statement's verdict depends on.
func situation(c Case, exp *Expected) string {
	s := "signer=" + signerClass(c)
	if c.Kind == "join" {
		s = "commit=join(empty pack) " + s
	}
	if c.Late {
		s += " identity-created-after-bugs-exist"
	}
	if c.Init != "" {
		s += " first-version-declares-" + c.Init
	}
	if exp != nil {
		if exp.InForce > 0 {
			s += " keys-in-force"
		} else {
			s += " no-key-in-force"
		}
		if exp.AtBound {
			s += " at-version-time"
		}
	}
	return s + " reader=" + c.Reader
}

// Evaluate compares the observed verdict with the statement.
func Evaluate(c Case, res subproc.Result) (f *Finding, obs Obs, harness string) {
	if res.Crashed {
		sum := crashSummary(res.Stderr)
		if sum == "" {
			sum = "process died (no panic message captured)"
		}
		tail := res.Stderr
		if len(tail) > 1200 {
			tail = tail[:1200]
		}
		return &Finding{"crash", situation(c, nil) + ": " + sum, fmt.Sprintf("the reader process died on %s\n%s", c.ID(), tail)}, obs, ""
	}
	if err := json.Unmarshal(res.Out, &obs); err != nil {
		return nil, obs, "bad worker output"
	}
	if obs.Harness != "" {
		return nil, obs, obs.Harness + " (" + c.ID() + ")"
	}
	if obs.Skip != "" {
		return nil, obs, ""
	}
	exp := obs.Expected
	// where the statement is silent every non-crashing outcome is accepted: a commit that carries
	// a signature nobody asked for (no key in force)
	if exp.InForce == 0 && exp.Signed {
		return nil, obs, ""
	}
	want := "error"
	if exp.Accept {
		want = "accepted"
	}
	if strings.HasPrefix(c.Signer, "raw:") {
		class := strings.TrimPrefix(c.Signer, "raw:")
		where := ""
		if c.Kind == "join" {
			where = " commit=join(empty pack)"
		}
		detail := fmt.Sprintf("case %s: validly signed commit (key %s in force at logical time %d) rewritten as a raw object; the signature verifies over the commit as go-git decodes and re-encodes it: %v; git-bug: %s %s",
			c.ID(), obs.SignedBy, exp.T, exp.Valid, obs.Verdict, obs.Err)
		if c.Reader == "both" {
			// the reference rule leaves these classes open: no crash, and both readers agree
			if obs.Verdict != obs.Verdict2 {
				return &Finding{"verdict", fmt.Sprintf("raw-altered/%s/readers-disagree(read=%s,merge=%s)%s", class, obs.Verdict, obs.Verdict2, where),
					detail + "; MergeAll: " + obs.Verdict2 + " " + obs.Err2}, obs, ""
			}
			return nil, obs, ""
		}
		if obs.Verdict != want {
			return &Finding{"verdict", fmt.Sprintf("raw-altered/%s/%s%s reader=%s (expected %s)", class, obs.Verdict, where, c.Reader, want), detail}, obs, ""
		}
		return nil, obs, ""
	}
	if strings.HasPrefix(c.Kind, "tree:") {
		// the order in which a tree stores its entries carries no meaning: the verdict is the one
		// of the canonically ordered tree (the reference reads the entries by name), or the history
		// is refused as malformed; never accepted where the canonical order is refused
		if obs.Verdict == "accepted" && want == "error" {
			return &Finding{"verdict", fmt.Sprintf("raw-tree-order/%s/accepted (canonical order refused) %s", strings.TrimPrefix(c.Kind, "tree:"), situation(c, &exp)),
				fmt.Sprintf("case %s: tree entries of the tested commit stored in the order %v; commit at logical time %d, versions created at %v, %d key(s) in force, signed=%v (by %s), valid under a key in force=%v; git-bug: %s",
					c.ID(), TreeOrders[strings.TrimPrefix(c.Kind, "tree:")], exp.T, exp.Times, exp.InForce, exp.Signed, obs.SignedBy, exp.Valid, obs.Verdict)}, obs, ""
		}
		return nil, obs, ""
	}
	if strings.HasPrefix(c.Reader, "session:") {
		when := "no-key-in-force"
		if exp.InForce > 0 {
			when = "keys-in-force"
		}
		what := map[string]string{"error": "refused", "accepted": "accepted"}
		detail := fmt.Sprintf("case %s: one cache session that resolved the author early, then pulled the rest (%s); commit at logical time %d, versions created at %v (known to the session when it judged), %d key(s) in force, signed=%v (by %s), valid under a key in force=%v; merge report: %s %s; operation visible through the session's cache: %v",
			c.ID(), strings.TrimPrefix(c.Reader, "session:"), exp.T, exp.Times, exp.InForce, exp.Signed, obs.SignedBy, exp.Valid, obs.Verdict, obs.Err, obs.Verdict2 == "accepted")
		if obs.Verdict != want {
			return &Finding{"verdict", fmt.Sprintf("session-reader/%s-%s/%s pulls=%s (expected %s)", signerClass(c), when, what[obs.Verdict], strings.TrimPrefix(c.Reader, "session:"), want), detail}, obs, ""
		}
		if obs.Verdict2 != obs.Verdict {
			return &Finding{"verdict", fmt.Sprintf("session-reader/%s-%s/report-%s-but-cache-shows-%s pulls=%s", signerClass(c), when, what[obs.Verdict], map[string]string{"error": "nothing", "accepted": "the-operation"}[obs.Verdict2], strings.TrimPrefix(c.Reader, "session:")), detail + " " + obs.Err2}, obs, ""
		}
		return nil, obs, ""
	}
	if obs.Verdict != want && exp.TimesDiffer {
		// the versions do not record the logical time at which they were created: the key history
		// built through the API (Identity.Mutate + Commit) is not the one the reader applies
		what := map[string]string{"error": "refused", "accepted": "accepted"}[obs.Verdict]
		when := "no-key-in-force"
		if exp.InForce > 0 {
			when = "keys-in-force"
		}
		joined := ""
		if c.Late {
			joined = " identity-created-after-bugs-exist"
		}
		return &Finding{"verdict", fmt.Sprintf("api-key-history/%s-%s/%s%s reader=%s (expected %s; a version records another time than the clock at its creation)", signerClass(c), when, what, joined, c.Reader, want),
			fmt.Sprintf("case %s: commit at logical time %d; versions created at clock %v but recording %v; %d key(s) in force by the creation times, signed=%v (by %s), valid under a key in force=%v; git-bug: %s %s",
				c.ID(), exp.T, exp.Times, exp.Stored, exp.InForce, exp.Signed, obs.SignedBy, exp.Valid, obs.Verdict, obs.Err)}, obs, ""
	}
	if obs.Verdict != want {
		return &Finding{"verdict", fmt.Sprintf("%s: expected %s, observed %s", situation(c, &exp), want, obs.Verdict),
			fmt.Sprintf("case %s: commit at logical time %d, version times %v, %d key(s) in force, signed=%v (by %s), signature valid under a key in force=%v; git-bug: %s %s",
				c.ID(), exp.T, exp.Times, exp.InForce, exp.Signed, obs.SignedBy, exp.Valid, obs.Verdict, obs.Err)}, obs, ""
	}
	return nil, obs, ""
}

// Main is the command C08.
func Main(args []string) {
	fs := flag.NewFlagSet("C08", flag.ExitOnError)
	replay := fs.String("replay", "", "replay file")
	maxLen := fs.Int("len", 0, "maximum number of identity changes (default: 3, thorough tier 4)")
	fs.Parse(args)
	tier := evidence.Tier()
	seed := evidence.Seed()
	if *maxLen == 0 {
		*maxLen = 3
		if tier == "thorough" {
			*maxLen = 4
		}
	}
	start := time.Now()
	scratch := world.ScratchRoot()
	defer os.RemoveAll(scratch)
	fail := func(err any) {
		fmt.Fprintln(os.Stderr, "harness error:", err)
		os.RemoveAll(scratch)
		os.Exit(2)
	}
	if _, err := LoadKeys(); err != nil { // generates testdata/keys.json once
		fail(err)
	}
	env := []string{"VERIF_SCRATCH=" + scratch, "GOTRACEBACK=single"}
	if *replay != "" {
		code := replayFile(*replay, env)
		os.RemoveAll(scratch)
		os.Exit(code)
	}

	histories := Histories(*maxLen)
	var cases []Case
	for _, h := range histories {
		for _, pos := range Positions(len(h)) {
			for _, signer := range Signers {
				for _, reader := range []string{"read", "merge"} {
					if tier != "thorough" && reader == "merge" && len(h) == 3 && signer != "nobody" && signer != "K1" {
						continue // quick tier: the second reader sees every history up to two changes completely, longer ones with two signers
					}
					cases = append(cases, Case{H: h, Pos: pos, Signer: signer, Reader: reader})
				}
			}
			// the same key history for an identity created after bugs exist (a second user joining:
			// already its first version records the bug clocks)
			for _, signer := range []string{"K1", "K2", "nobody"} {
				for _, reader := range []string{"read", "merge"} {
					if tier != "thorough" && reader == "merge" && len(h) == 3 {
						continue
					}
					cases = append(cases, Case{H: h, Pos: pos, Signer: signer, Reader: reader, Late: true})
				}
			}
			// third reader: one long-lived cache session that resolved the author before the key changes
			if len(h) > 0 {
				for _, signer := range []string{"K1", "K2", "K3", "nobody", "altered-tree"} {
					for _, order := range []string{"one", "id-first", "bug-first"} {
						if tier != "thorough" && len(h) == 3 && (order != "one" || (signer != "K1" && signer != "nobody")) {
							continue // quick tier, histories of three changes: one pull, two signers
						}
						cases = append(cases, Case{H: h, Pos: pos, Signer: signer, Reader: "session:" + order})
					}
				}
			}
			// the tested commit as a join commit with an empty pack
			for _, signer := range JoinSigners {
				for _, reader := range []string{"read", "merge"} {
					if tier != "thorough" && len(h) == 3 && (reader == "merge" || signer == "altered-tree") && signer != "nobody" && signer != "in-force" {
						continue // quick tier, histories of three changes: second reader with two signers, first reader without the second alteration
					}
					cases = append(cases, Case{H: h, Pos: pos, Signer: signer, Reader: reader, Kind: "join"})
				}
			}
			// a validly signed commit rewritten as a raw object (needs a key in force: other
			// positions report "not applicable"); independent of the length of the history, so the
			// quick tier takes histories of at most two changes
			if tier != "thorough" && len(h) > 2 {
				continue
			}
			for _, kind := range []string{"", "join"} {
				for _, class := range RawAlterations {
					if tier != "thorough" && kind == "join" && !strings.Contains(class, "parent") && !strings.Contains(class, "tree-after") {
						continue // quick tier: the join commit takes the parent alterations (an operation commit with two parents is refused anyway) and one tree alteration
					}
					if RawUnsure(class) {
						cases = append(cases, Case{H: h, Pos: pos, Signer: "raw:" + class, Reader: "both", Kind: kind})
						continue
					}
					for _, reader := range []string{"read", "merge"} {
						cases = append(cases, Case{H: h, Pos: pos, Signer: "raw:" + class, Reader: reader, Kind: kind})
					}
				}
			}
		}
	}
	// raw tree alterations: the entries of the tested commit's tree stored in another order. The
	// tested commit is never the root, so its tree has three entries (edit clock, ops, version):
	// all five non-canonical permutations; histories from an empty key set and from a first
	// version that already declares K1 (so that the keys at logical time 0 differ from the keys at
	// the commit's time in both directions)
	treeOrders := []string{"ops-first", "reverse", "version-first", "ops-first-version-second", "ops-last"}
	for _, init := range []string{"", "K1"} {
		var from []string
		if init != "" {
			from = []string{init}
		}
		maxTree := 2
		if init != "" {
			maxTree = 1
		}
		if tier == "thorough" {
			maxTree = 3
		}
		for _, h := range HistoriesFrom(maxTree, from) {
			if len(h) == 0 && init == "" {
				continue
			}
			for _, pos := range Positions(len(h)) {
				for i, order := range treeOrders {
					for _, signer := range []string{"K1", "K2", "K3", "nobody"} {
						for _, reader := range []string{"read", "merge"} {
							if tier != "thorough" && (i >= 2 || (reader == "merge" && i >= 1) || (signer == "K2" && init == "")) {
								continue // quick tier: ops-first through both readers, reverse through bug.Read
							}
							cases = append(cases, Case{H: h, Pos: pos, Signer: signer, Reader: reader, Kind: "tree:" + order, Init: init})
						}
					}
				}
			}
		}
	}
	// the small hand-built families go first, so that the internal deadline on a busy machine
	// never cuts them
	prio := func(c Case) int {
		switch {
		case strings.HasPrefix(c.Kind, "tree:"):
			return 0
		case strings.HasPrefix(c.Signer, "raw:"):
			return 1
		case strings.HasPrefix(c.Reader, "session:"):
			return 2
		case c.Late:
			return 3
		}
		return 4
	}
	sort.SliceStable(cases, func(a, b int) bool { return prio(cases[a]) < prio(cases[b]) })
	budget := 170 * time.Second
	if tier == "thorough" {
		budget = 20 * time.Minute
	}
	deadline := start.Add(budget)
	rep := evidence.NewReporter("C08")
	type first struct {
		c     Case
		f     Finding
		count int
	}
	found := map[string]*first{}
	var order []string
	verdicts := map[string]int{}
	bySigner := map[string]int{}
	rawVerdicts := map[string]int{}
	outcomes := map[string]bool{}
	var samples []any
	executed, skipped, crashes, harnessErrs, unspecified, joinCases, rawCases, lateCases, sessionCases, treeCases, treeRefused := 0, 0, 0, 0, 0, 0, 0, 0, 0, 0, 0
	expAccept, expReject, boundary := 0, 0, 0
	exhaustive := true
	const batch = 2000
	for off := 0; off < len(cases); off += batch {
		if time.Now().After(deadline) {
			exhaustive = false
			break
		}
		end := off + batch
		if end > len(cases) {
			end = len(cases)
		}
		ids := make([]string, end-off)
		for i := range ids {
			ids[i] = cases[off+i].ID()
		}
		results, err := subproc.Run([]string{"c08worker"}, ids, 0, env...)
		if err != nil {
			fail(err)
		}
		for i, res := range results {
			c := cases[off+i]
			f, obs, herr := Evaluate(c, res)
			if herr != "" {
				harnessErrs++
				if harnessErrs <= 5 {
					fmt.Fprintln(os.Stderr, "harness error:", herr)
				}
				continue
			}
			if obs.Skip != "" {
				skipped++
				continue
			}
			executed++
			if c.Kind == "join" {
				joinCases++
			}
			if c.Late {
				lateCases++
			}
			if strings.HasPrefix(c.Reader, "session:") {
				sessionCases++
			}
			if strings.HasPrefix(c.Kind, "tree:") {
				treeCases++
				if !res.Crashed && obs.Verdict == "error" && obs.Expected.Accept && !(obs.Expected.InForce == 0 && obs.Expected.Signed) {
					treeRefused++
				}
			}
			if strings.HasPrefix(c.Signer, "raw:") {
				rawCases++
				rv := obs.Verdict
				if res.Crashed {
					rv = "crash"
				} else if c.Reader == "both" {
					rv = "read=" + obs.Verdict + ",merge=" + obs.Verdict2
				}
				rawVerdicts[signerClass(c)+" -> "+rv]++
			}
			bySigner[signerClass(c)]++
			v := obs.Verdict
			if res.Crashed {
				v = "crash"
				crashes++
			} else {
				if obs.Expected.InForce == 0 && obs.Expected.Signed {
					unspecified++
				} else if obs.Expected.Accept {
					expAccept++
				} else {
					expReject++
				}
				if obs.Expected.AtBound {
					boundary++
				}
			}
			verdicts[v]++
			var e *Expected
			if !res.Crashed {
				e = &obs.Expected
			}
			key := situation(c, e) + " -> " + v
			if !outcomes[key] {
				outcomes[key] = true
				if len(samples) < 10 {
					samples = append(samples, map[string]any{"case": c, "expected": e, "observed": v})
				}
			}
			if f != nil {
				k := f.Oracle + "|" + f.Sig
				if found[k] == nil {
					found[k] = &first{c: c, f: *f}
					order = append(order, k)
				}
				found[k].count++
			}
		}
		fmt.Fprintf(os.Stderr, "C08: %d/%d cases, %d distinct findings, %.0fs\n", end, len(cases), len(found), time.Since(start).Seconds())
	}
	sort.Strings(order)
	var reIds []string
	for _, k := range order {
		for i := 0; i < 5; i++ {
			reIds = append(reIds, found[k].c.ID())
		}
	}
	var reRes []subproc.Result
	if len(reIds) > 0 {
		var err error
		if reRes, err = subproc.Run([]string{"c08worker"}, reIds, 0, env...); err != nil {
			fail(err)
		}
	}
	flakes := 0
	for n, k := range order {
		fd := found[k]
		hits := 0
		for i := 0; i < 5; i++ {
			if g, _, _ := Evaluate(fd.c, reRes[n*5+i]); g != nil && g.Oracle == fd.f.Oracle && g.Sig == fd.f.Sig {
				hits++
			}
		}
		if fd.f.Oracle == "crash" && hits == 0 && strings.Contains(fd.f.Sig, "no panic message captured") {
			flakes++
			fmt.Fprintf(os.Stderr, "note: worker died without a panic on %s and did not do so in 5 re-executions; ignored\n", fd.c.ID())
			continue
		}
		rep.Report(evidence.Report{Oracle: fd.f.Oracle, Sig: fd.f.Sig, Detail: fmt.Sprintf("%s (reproduced %d/5)", fd.f.Detail, hits),
			Replay: map[string]any{"case": fd.c, "seed": seed, "reproduced_of_5": hits}, Count: fd.count})
	}
	known := rep.KnownSeen()
	sort.Strings(known)
	cov := map[string]any{
		"evaluations":          executed,
		"distinct_nontrivial":  len(outcomes),
		"rule":                 "a case is (identity history, position of the tested commit, kind of tested commit: with an operation / join commit with an empty pack, signer, reader) built with git-bug and read in a worker subprocess; distinct non-trivial = number of distinct (kind of tested commit, signer's relation to the history, keys in force or not, commit at a version's own logical time or not, reader, observed verdict) combinations",
		"exhaustive":           exhaustive && harnessErrs == 0,
		"planned_cases":        len(cases),
		"histories":            len(histories),
		"max_changes":          *maxLen,
		"alphabet":             Alphabet,
		"signers":              Signers,
		"join_commit_signers":  JoinSigners,
		"late_identity_cases":  lateCases,
		"session_reader_cases": sessionCases,
		"raw_tree_order_cases": treeCases,
		"raw_tree_order_refused_where_canonical_accepted": treeRefused,
		"raw_object_alterations":                          RawAlterations,
		"raw_object_cases":                                rawCases,
		"raw_object_verdicts":                             rawVerdicts,
		"join_commit_cases":                               joinCases,
		"not_applicable":                                  skipped,
		"observed_verdicts":                               verdicts,
		"cases_per_signer":                                bySigner,
		"reference_expects":                               map[string]int{"accept": expAccept, "reject_with_error": expReject, "statement_silent(signed although no key in force)": unspecified},
		"commits_at_a_version_time":                       boundary,
		"crashed_cases":                                   crashes,
		"distinct_findings_including_known":               len(found) - flakes,
		"samples":                                         samples,
	}
	ev := evidence.Evidence{PropertyID: "C08", Tier: tier, Seed: seed, Level: "exploration", Coverage: cov,
		Assumptions: []string{
			"every case is built by git-bug itself (identity versions, bug commits, signatures through StoreSignedCommit; the signer is chosen by an identity.Interface wrapper overriding SigningKey only) and read by the real bug.Read / MergeAll in a worker subprocess; a dead worker is the observation 'crash'",
			"raw tree alterations: the tree of the tested commit is written as a raw tree object with its entries in a non-canonical order (go-git's Tree.Encode refuses that) and the commit is signed after the tree was built; entry order carries no meaning, so the expected verdict is that of the canonical order (the reference reads entries by name); a refusal as malformed is tolerated, an acceptance where the canonical order is refused is a violation",
			"third reader 'session': one cache.RepoCache on a victim replica pulls the early state (author resolved through the cache's resolvers), stays open and Fetch+MergeAll's the identity versions and the later commits in one pull, identity first, or commits first (then judged with the identity version the session knows); verdict = the merge report, which must agree with what the session's cache shows",
			"readers resolve the author from git, so keys are public-only, as for every reader other than the author's own process",
			"the identity versions are made through the real API (identity.NewIdentity / Identity.Mutate + Commit) in a repository whose bug clocks advance between the steps; the logical time of a version is the value of the bug edit clock read right before it is created, not what the version recorded (a difference is reported with the verdicts it changes)",
			"the reference evaluates keysInForce(history, T) = key set of the last version whose creation time <= T (key sets from the stored version blobs), and checks signatures with the OpenPGP packet primitives directly on the commit as stored",
			"a key introduced by a version recorded at time T is in force for a commit at T (the statement's boundary), so an unsigned commit made at the logical time the key-adding version records is expected to be rejected",
			"RSA keys are generated once and kept in harness/props/c08/testdata/keys.json; signatures embed the wall clock, so commit hashes differ between runs while verdicts do not",
			"altered commits: the operation pack text (tree) or the parent list is changed after signing, the signature header is kept (written with go-git plumbing on the same directory)",
			"raw-object alterations: the stored bytes of a validly signed commit are rewritten by hand through go-git's storer (headers added after/before the gpgsig block, the block moved, bytes appended to the message, a second gpgsig block); expected verdict = the signature verifies over the commit as go-git decodes and re-encodes it without signature, i.e. tree, parents, author, committer and message the reader uses must all be covered; for unknown headers and a moved gpgsig block only 'no crash' and 'bug.Read and MergeAll agree' are required",
			"join commits are written with the exported calls operationPack.Write makes for merge() (StoreData, StoreTree, Increment, StoreSignedCommit/StoreCommit): two parents (two concurrent commits of a key-less second author), pack {author, ops:null} in the name of the identity under test",
			fmt.Sprintf("bounded: keys {K1,K2} plus a stranger's K3, at most %d identity changes, one tested commit per case", *maxLen),
		},
		WallS: time.Since(start).Seconds(), Violations: rep.Viol, Known: known}
	if err := ev.Write(); err != nil {
		fail(err)
	}
	fmt.Printf("C08: cases=%d executed=%d histories=%d distinct-outcomes=%d crashes=%d findings=%d exhaustive=%v violations=%d wall=%.1fs\n",
		len(cases), executed, len(histories), len(outcomes), crashes, len(found), exhaustive, rep.Viol, time.Since(start).Seconds())
	os.RemoveAll(scratch)
	if harnessErrs > 0 && rep.Viol == 0 {
		fmt.Fprintf(os.Stderr, "harness error: %d cases could not be executed\n", harnessErrs)
		os.Exit(2)
	}
	rep.Exit()
}

func replayFile(path string, env []string) int {
	b, err := os.ReadFile(path)
	if err != nil {
		fmt.Fprintln(os.Stderr, err)
		return 2
	}
	var f struct {
		Oracle string `json:"oracle"`
		Sig    string `json:"sig"`
		Replay struct {
			Case Case `json:"case"`
		} `json:"replay"`
	}
	if err := json.Unmarshal(b, &f); err != nil {
		fmt.Fprintln(os.Stderr, err)
		return 2
	}
	c := f.Replay.Case
	res, err := subproc.Run([]string{"c08worker"}, []string{c.ID()}, 1, env...)
	if err != nil || len(res) != 1 {
		fmt.Fprintln(os.Stderr, "replay error:", err)
		return 2
	}
	fmt.Printf("case: %s\n", c.ID())
	if res[0].Crashed {
		fmt.Printf("the reader process died:\n%s\n", res[0].Stderr)
	} else {
		fmt.Printf("observation: %s\n", res[0].Out)
	}
	g, _, herr := Evaluate(c, res[0])
	if herr != "" {
		fmt.Println("harness error:", herr)
		return 2
	}
	if g != nil {
		fmt.Printf("  violation %s|%s\n    %s\n", g.Oracle, g.Sig, g.Detail)
		if g.Oracle == f.Oracle && g.Sig == f.Sig {
			fmt.Println("reproduced")
			return 1
		}
	}
	fmt.Println("not reproduced")
	return 0
}
