package c12

import (
	"fmt"
	"regexp"
	"strings"
	"sync"

	"github.com/MichaelMure/git-bug/query"

	"verifharness/par"
)

// alphabet of part (a): letters, the separators of the grammar, both quotes, a multi-byte rune, a
// letter that starts qualifiers ("s"), the character of sort directions.
var alphabet = []string{"a", ":", " ", `"`, "'", "é", "s", "-"}

func pow(b, e int) int {
	r := 1
	for i := 0; i < e; i++ {
		r *= b
	}
	return r
}

// nthString decodes string number i of length l over the alphabet.
func nthString(i, l int, sb *strings.Builder) string {
	sb.Reset()
	var d [16]int
	for k := l - 1; k >= 0; k-- {
		d[k] = i % len(alphabet)
		i /= len(alphabet)
	}
	for k := 0; k < l; k++ {
		sb.WriteString(alphabet[d[k]])
	}
	return sb.String()
}

var quoted = regexp.MustCompile(`"[^"]*"|sorting .*$`)

func errClass(err error) string {
	return "error: " + quoted.ReplaceAllString(err.Error(), "…")
}

// parseVerdict runs the parser on one string: never a panic; a query or an error, not both, not
// neither.
func parseVerdict(s string) (sig, detail, class string) {
	q, err, pan := safeParse(s)
	return verdictOf(s, q, err, pan)
}

func verdictOf(s string, q *query.Query, err error, pan any) (sig, detail, class string) {
	switch {
	case pan != nil:
		return "parse-panic", fmt.Sprintf("query.Parse(%q) panicked: %v", s, pan), ""
	case err == nil && q == nil:
		return "parse-neither-query-nor-error", fmt.Sprintf("query.Parse(%q) returned neither a query nor an error", s), ""
	case err != nil && q != nil:
		return "parse-both-query-and-error", fmt.Sprintf("query.Parse(%q) returned a query together with error %q", s, err), ""
	case err != nil:
		return "", "", errClass(err)
	}
	n := len(q.Status) + len(q.Author) + len(q.Actor) + len(q.Participant) + len(q.Label) + len(q.Title) + len(q.Metadata)
	return "", "", fmt.Sprintf("parsed: %d search terms, %d filters", len(q.Search), n)
}

// partAlphabet: ALL strings of length 0..maxLen over the alphabet.
func partAlphabet(col *collector, maxLen int) partResult {
	r := partResult{Outcomes: map[string]int{}}
	type job struct{ l, from, to int }
	var jobs []job
	const chunk = 1 << 14
	for l := 0; l <= maxLen; l++ {
		n := pow(len(alphabet), l)
		for from := 0; from < n; from += chunk {
			to := from + chunk
			if to > n {
				to = n
			}
			jobs = append(jobs, job{l, from, to})
		}
		r.Inputs += n
	}
	var mu sync.Mutex
	par.ForEach(len(jobs), 0, func(j int) {
		jb := jobs[j]
		if pastDeadline() {
			return
		}
		local := map[string]int{}
		var sb strings.Builder
		for i := jb.from; i < jb.to; i++ {
			s := nthString(i, jb.l, &sb)
			sig, detail, class := parseVerdict(s)
			if sig != "" {
				col.add(finding{"never-panic", sig, detail, map[string]any{"part": "alphabet", "input": s}})
				local["VIOLATION "+sig]++
			} else {
				local[class]++
			}
		}
		mu.Lock()
		merge(r.Outcomes, local, "")
		r.Calls += jb.to - jb.from
		mu.Unlock()
	})
	r.Extra = map[string]any{"alphabet": alphabet, "max_length": maxLen}
	var sb strings.Builder
	r.Samples = []any{map[string]any{"part": "alphabet", "input": nthString(123457, 6, &sb)}, map[string]any{"part": "alphabet", "input": nthString(1999999, 7, &sb)}}
	return r
}

// token of part (a, token strings). Kind "valid": a clause of the documented language (its
// denotation is known); "invalid": must make the whole query be rejected; "free": the
// documentation does not say (other quote character, case of keywords, aliases, stray quotes):
// strings containing one are only required not to crash the parser.
type token struct {
	Text string
	Kind string
	C    clause
	Why  string // invalid tokens: what is wrong
}

func tokenList() []token {
	var out []token
	valid := []clause{
		mk("status", "open", false), mk("status", "closed", false),
		mk("author", "rene", false), mk("author", "René Descartes", false),
		mk("actor", "rene", false), mk("participant", "rené descartes", false),
		mk("label", "prod", false), mk("label", "Good first issue", false),
		mk("title", "Critical", false), mk("title", "Typo in string", false), mk("title", "a:b", false),
		mk("nolabel", "", false), mkMeta("github-id", "42", false), mkMeta("tracker url", "two words", false),
		mk("search", "word", false), mk("search", "two words", false), mk("search", "é", false),
		// double-quoted values containing apostrophes (one, one, two)
		mk("title", "can't reproduce", false), mk("label", "it's", false), mk("search", "'tis 'twas", false),
	}
	valid = append(valid, sortClauses()...)
	for _, c := range valid {
		out = append(out, token{Text: c.Text, Kind: "valid", C: c})
	}
	for _, m := range malformedPieces {
		if strings.Contains(m.Text, `'`) {
			continue // open quotes are position dependent, hence "free" here; two of them are enough
		}
		if strings.Contains(m.Text, `"`) {
			out = append(out, token{Text: m.Text, Kind: "free"}) // an open quote swallows what follows: position dependent
			continue
		}
		out = append(out, token{Text: m.Text, Kind: "invalid", Why: m.Why})
	}
	for _, f := range []string{"state:open", "status:OPEN", "STATUS:open", "'single quoted'", "label:'x y'", `"`, "'", `""`, `label:""`, "metadata:k", `a"b`, "-", "sort:", "title:can't"} {
		out = append(out, token{Text: f, Kind: "free"})
	}
	return out
}

// partTokens: all strings of 1..maxTokens tokens joined by one space.
func partTokens(col *collector, maxTokens int) partResult {
	toks := tokenList()
	n := len(toks)
	total := sequenceCount(n, maxTokens)
	r := partResult{Outcomes: map[string]int{}, Inputs: total}
	const chunk = 1 << 13
	jobs := (total + chunk - 1) / chunk
	var mu sync.Mutex
	par.ForEach(jobs, 0, func(j int) {
		local := map[string]int{}
		calls := 0
		var buf []int
		if pastDeadline() {
			return
		}
		for i := j * chunk; i < (j+1)*chunk && i < total; i++ {
			seq := nthSequence(i, n, maxTokens, buf)
			calls++
			sig, detail, class := checkTokenString(toks, seq)
			if sig != "" {
				col.add(finding{oracleOfTokenSig(sig), sig, detail, map[string]any{"part": "tokens", "tokens": seq, "input": joinTokens(toks, seq)}})
				local["VIOLATION "+strings.SplitN(sig, "[", 2)[0]]++
			} else {
				local[class]++
			}
		}
		mu.Lock()
		merge(r.Outcomes, local, "")
		r.Calls += calls
		mu.Unlock()
	})
	var texts []string
	for _, t := range toks {
		texts = append(texts, t.Kind+" "+t.Text)
	}
	r.Extra = map[string]any{"tokens": texts, "max_tokens": maxTokens}
	r.Samples = []any{map[string]any{"part": "tokens", "input": joinTokens(toks, nthSequence(total-12345, n, maxTokens, nil))}}
	return r
}

func oracleOfTokenSig(sig string) string {
	if strings.HasPrefix(sig, "parse-") {
		return "never-panic"
	}
	return "parse-denotation"
}

func joinTokens(toks []token, seq []int) string {
	parts := make([]string, len(seq))
	for i, k := range seq {
		parts[i] = toks[k].Text
	}
	return strings.Join(parts, " ")
}

func checkTokenString(toks []token, seq []int) (sig, detail, class string) {
	s := joinTokens(toks, seq)
	q, err, pan := safeParse(s)
	sig, detail, class = verdictOf(s, q, err, pan)
	if sig != "" {
		return
	}
	var cs []clause
	invalid, why := false, "more than one sort"
	for _, k := range seq {
		switch toks[k].Kind {
		case "free":
			return "", "", "undocumented piece present: " + class[:6]
		case "invalid":
			if !invalid {
				why = toks[k].Why
			}
			invalid = true
		default:
			cs = append(cs, toks[k].C)
		}
	}
	want, twoSorts := denote(cs)
	switch {
	case invalid || twoSorts:
		if err == nil {
			return "malformed-accepted[" + why + "]", fmt.Sprintf("query.Parse(%q) succeeded; must be rejected: %s", s, why), ""
		}
		return "", "", "malformed rejected"
	case err != nil:
		return "well-formed-rejected", fmt.Sprintf("query.Parse(%q) failed with %q; the input is a sequence of documented clauses", s, err), ""
	default:
		if ok, diff := sameQuery(q, want); !ok {
			return "wrong-denotation", fmt.Sprintf("query.Parse(%q): %s", s, diff), ""
		}
	}
	return "", "", "well-formed parsed as denoted"
}
