// Package c12 decides property C12: queries parse as documented and return exactly the matching
// bugs, ordered.
//
// Exhaustively enumerated spaces, every element executed on the real git-bug code:
//
//	alphabet  all strings of length <= 7 (thorough 8) over {a : space " ' é s -}: query.Parse never
//	          panics and returns a query or an error;
//	tokens    all strings of <= 4 tokens (joined by a space) from a list of every qualifier, sort
//	          value, quoted, malformed and undocumented pieces: never a panic; strings made of
//	          documented clauses parse to what they denote; a malformed piece or a second sort is
//	          rejected;
//	roundtrip every structured query of <= 3 (4) clauses rendered through the grammar of
//	          doc/queries.md parses to the query it was rendered from; malformed pieces at every
//	          position are rejected;
//	eval      every structured query of <= 3 (4) clauses over a catalogue tuned to the population,
//	          parsed by the real parser and evaluated by the real RepoCache on populations of 6-12
//	          bugs built through the real cache (several replicas for equal Lamport times), at
//	          several stages (live cache, reopened cache, after a pull, after further edits),
//	          against a reference evaluator over bugs read back from git.
package c12

import (
	"encoding/json"
	"flag"
	"fmt"
	"os"
	"path/filepath"
	"sort"
	"strings"
	"sync"
	"time"

	"verifharness/evidence"
	"verifharness/par"
	"verifharness/world"
)

type finding struct {
	Oracle string
	Sig    string
	Detail string
	Replay map[string]any
}

type collector struct {
	mu    sync.Mutex
	first map[string]finding
	count map[string]int
}

func newCollector() *collector {
	return &collector{first: map[string]finding{}, count: map[string]int{}}
}

func replaySize(m map[string]any) (int, string) {
	j, _ := json.Marshal(m)
	n := len(j)
	if cl, ok := m["clauses"].([]string); ok {
		n = len(cl)*100000 + len(j) // fewest clauses first
	}
	return n, string(j)
}

func (c *collector) add(f finding) {
	c.mu.Lock()
	defer c.mu.Unlock()
	k := f.Oracle + "|" + f.Sig
	if old, ok := c.first[k]; !ok {
		c.first[k] = f
	} else {
		// keep the smallest instance: the reported counterexample does not depend on scheduling
		n1, j1 := replaySize(f.Replay)
		n2, j2 := replaySize(old.Replay)
		if n1 < n2 || (n1 == n2 && j1 < j2) {
			c.first[k] = f
		}
	}
	c.count[k]++
}

// sigParts splits "what[k1+k2]" into what and the set of kinds.
func sigParts(sig string) (string, map[string]bool) {
	i := strings.IndexByte(sig, '[')
	if i < 0 || !strings.HasSuffix(sig, "]") {
		return sig, nil
	}
	set := map[string]bool{}
	for _, k := range strings.Split(sig[i+1:len(sig)-1], "+") {
		set[k] = true
	}
	return sig[:i], set
}

// flush reports the findings; a finding whose clause kinds strictly include those of another
// finding of the same sort is implied by it and only counted.
func (c *collector) flush(rep *evidence.Reporter) {
	var keys []string
	for k := range c.first {
		keys = append(keys, k)
	}
	sort.Strings(keys)
	for _, k := range keys {
		f := c.first[k]
		what, kinds := sigParts(f.Sig)
		implied := false
		for _, k2 := range keys {
			g := c.first[k2]
			w2, kinds2 := sigParts(g.Sig)
			if k2 == k || g.Oracle != f.Oracle || w2 != what || kinds == nil || kinds2 == nil || len(kinds2) >= len(kinds) {
				continue
			}
			sub := true
			for x := range kinds2 {
				if !kinds[x] {
					sub = false
				}
			}
			if sub {
				implied = true
			}
		}
		if implied {
			continue
		}
		rep.Report(evidence.Report{Oracle: f.Oracle, Sig: f.Sig, Detail: f.Detail, Replay: f.Replay, Count: c.count[k]})
	}
}

type partResult struct {
	Inputs   int
	Calls    int
	Outcomes map[string]int
	Samples  []any
	Extra    map[string]any
	Err      error
}

func merge(dst map[string]int, src map[string]int, prefix string) {
	for k, v := range src {
		dst[prefix+k] += v
	}
}

type bounds struct {
	alphabetLen, tokens, roundTrip, evalClauses, evalStringsLen int
}

func boundsFor(tier string) bounds {
	if tier == "thorough" {
		return bounds{alphabetLen: 8, tokens: 4, roundTrip: 4, evalClauses: 4, evalStringsLen: 6}
	}
	return bounds{alphabetLen: 7, tokens: 4, roundTrip: 3, evalClauses: 3, evalStringsLen: 5}
}

// evalAlphabetStrings: every string of length <= maxLen over the alphabet that parses is also
// evaluated; the language of free-text terms is not documented, so only "no crash" is asked.
func evalAlphabetStrings(col *collector, ctx *evalCtx, maxLen int) partResult {
	r := partResult{Outcomes: map[string]int{}}
	var inputs []string
	var sb strings.Builder
	for l := 0; l <= maxLen; l++ {
		for i := 0; i < pow(len(alphabet), l); i++ {
			s := nthString(i, l, &sb)
			if q, err, pan := safeParse(s); pan == nil && err == nil && q != nil {
				inputs = append(inputs, s)
			}
		}
	}
	var mu sync.Mutex
	par.ForEach(len(inputs), 0, func(i int) {
		s := inputs[i]
		q, _, _ := safeParse(s)
		_, err, pan := safeQuery(ctx.p.cache, q)
		mu.Lock()
		defer mu.Unlock()
		r.Calls++
		switch {
		case pan != nil:
			col.add(finding{"evaluation", "panic-on-parsed-string", fmt.Sprintf("population %q, %s: evaluating the parsed query %q panicked: %v", ctx.p.Spec.Name, ctx.stage, s, pan),
				map[string]any{"part": "eval-strings", "population": ctx.p.Spec.Name, "stage": ctx.stage, "input": s}})
			r.Outcomes["VIOLATION panic"]++
		case err != nil:
			r.Outcomes["evaluation error (accepted)"]++
		default:
			r.Outcomes["evaluated"]++
		}
	})
	r.Inputs = len(inputs)
	r.Extra = map[string]any{"max_length": maxLen}
	return r
}

// deadline is the internal time limit of a run; work units that would start after it are skipped
// and the evidence says exhaustive:false with what was completed (executions < inputs).
var (
	deadline      time.Time
	deadlineHit   bool
	deadlineMutex sync.Mutex
)

func pastDeadline() bool {
	if deadline.IsZero() || time.Now().Before(deadline) {
		return false
	}
	deadlineMutex.Lock()
	deadlineHit = true
	deadlineMutex.Unlock()
	return true
}

type run struct {
	tier     string
	seed     uint64
	b        bounds
	col      *collector
	scratch  string
	outcomes map[string]int
	parts    map[string]any
	samples  []any
	inputs   int
	calls    int
	compared int
	harness  bool
	// replay restriction
	onlyPop, onlyStage string
	onlyPart           string
	onlyClauses        []string
	onlyInput          string
}

func (r *run) record(name string, pr partResult, compared bool, t0 time.Time) {
	if pr.Err != nil {
		fmt.Fprintf(os.Stderr, "harness error: %s: %v\n", name, pr.Err)
		r.harness = true
	}
	r.inputs += pr.Inputs
	r.calls += pr.Calls
	if compared {
		r.compared += pr.Calls
	}
	merge(r.outcomes, pr.Outcomes, name+": ")
	r.samples = append(r.samples, pr.Samples...)
	info := map[string]any{"inputs": pr.Inputs, "executions": pr.Calls, "wall_s": time.Since(t0).Seconds()}
	for k, v := range pr.Extra {
		info[k] = v
	}
	r.parts[name] = info
	fmt.Fprintf(os.Stderr, "== C12 %s: inputs=%d executions=%d (%.1fs)\n", name, pr.Inputs, pr.Calls, time.Since(t0).Seconds())
}

// evalPopulations builds every population and evaluates the catalogue at every stage.
func (r *run) evalPopulations() {
	for pi, spec := range popSpecs() {
		if r.onlyPop != "" && spec.Name != r.onlyPop {
			continue
		}
		dir := filepath.Join(r.scratch, fmt.Sprintf("pop%d", pi))
		stageNo := 0
		err := build(dir, r.seed, spec, func(p *population, stage string, withSearch bool) error {
			stageNo++
			if r.onlyStage != "" && stage != r.onlyStage {
				return nil
			}
			cat := evalCatalogue(p)
			if r.onlyPart == "eval-case" {
				cat = caseCatalogue()
			}
			ctx, err := newEvalCtx(p, stage, withSearch, cat)
			if err != nil {
				return err
			}
			name := fmt.Sprintf("eval %s/%d %s", spec.Name, stageNo, stage)
			if r.onlyInput != "" {
				q, _, _ := safeParse(r.onlyInput)
				if q != nil {
					if _, _, pan := safeQuery(p.cache, q); pan != nil {
						r.col.add(finding{"evaluation", "panic-on-parsed-string", fmt.Sprint(pan), nil})
					}
				}
				return nil
			}
			if r.onlyPart == "eval-repeat" {
				all := append(phraseClauses(), cat...)
				var cs []clause
				for _, t := range r.onlyClauses {
					for _, c := range all {
						if c.Text == t {
							cs = append(cs, c)
							break
						}
					}
				}
				fs, _ := checkRepeat(cs, ctx)
				for _, v := range fs {
					r.col.add(finding{v.Oracle, v.What, v.Detail, nil})
				}
				return nil
			}
			if r.onlyClauses != nil {
				var seq []int
				for _, t := range r.onlyClauses {
					found := -1
					for i, c := range cat {
						if c.Text == t {
							found = i
						}
					}
					if found < 0 {
						return fmt.Errorf("clause %q is not in the catalogue of this population", t)
					}
					seq = append(seq, found)
				}
				v := checkSequence(cat, seq, ctx)
				if v.What != "" {
					sig := v.What
					if v.Kinds != "" {
						sig += "[" + v.Kinds + "]"
					}
					r.col.add(finding{v.Oracle, sig, v.Detail, nil})
				} else {
					fmt.Println("  outcome:", v.Class)
				}
				return nil
			}
			t0 := time.Now()
			pr := runSequences(r.col, "eval", cat, r.b.evalClauses, ctx)
			var texts []string
			for _, c := range cat {
				texts = append(texts, c.Text)
			}
			pr.Extra["bugs"] = len(ctx.bugs)
			pr.Extra["order_keys"], pr.Extra["pairs_equal_lamport_different_unix"], pr.Extra["pairs_fully_tied"] = ctx.orderKeys()
			if stageNo == 1 {
				pr.Extra["catalogue"] = texts
				pr.Samples = append(pr.Samples, map[string]any{"part": "eval", "population": spec.Name, "stage": stage, "bugs": ctx.describe(),
					"query": renderQuery([]clause{cat[2], cat[23], cat[len(cat)-2]})})
			}
			r.record(name, pr, true, t0)
			if spec.Name == "filters" && withSearch {
				// the same parsed Query object evaluated three times (quoted multi-word search terms)
				t0 := time.Now()
				r.record(fmt.Sprintf("eval-repeat %s/%d %s", spec.Name, stageNo, stage), runRepeat(r.col, cat, ctx), true, t0)
			}
			if spec.Name == "filters" {
				// names, logins and titles whose only capitals are non-ASCII x every query case
				t0 := time.Now()
				ccat := caseCatalogue()
				cctx, err := newEvalCtx(p, stage, withSearch, ccat)
				if err != nil {
					return err
				}
				cpr := runSequences(r.col, "eval-case", ccat, 2, cctx)
				if stageNo == 1 {
					var ctexts []string
					for _, c := range ccat {
						ctexts = append(ctexts, c.Text)
					}
					cpr.Extra["catalogue"] = ctexts
					cpr.Samples = append(cpr.Samples, map[string]any{"part": "eval-case", "population": spec.Name, "stage": stage, "query": renderQuery([]clause{ccat[1], ccat[len(ccat)-3]})})
				}
				r.record(fmt.Sprintf("eval-case %s/%d %s", spec.Name, stageNo, stage), cpr, true, t0)
			}
			if pi == 0 && stageNo == 2 {
				t0 := time.Now()
				r.record("eval-strings "+spec.Name, evalAlphabetStrings(r.col, ctx, r.b.evalStringsLen), false, t0)
			}
			return nil
		})
		if err != nil {
			fmt.Fprintf(os.Stderr, "harness error: population %s: %v\n", spec.Name, err)
			r.harness = true
		}
	}
}

// Main is the entry point of `harness C12`.
func Main(args []string) {
	fs := flag.NewFlagSet("C12", flag.ExitOnError)
	replay := fs.String("replay", "", "replay file")
	only := fs.String("only", "", "comma separated parts to run: alphabet,tokens,roundtrip,eval (debugging; evidence says so)")
	fs.Parse(args)

	scratch := world.ScratchRoot()
	defer os.RemoveAll(scratch)
	world.IsolateEnv(scratch)

	tier := evidence.Tier()
	r := &run{tier: tier, seed: uint64(evidence.Seed()), b: boundsFor(tier), col: newCollector(), scratch: scratch,
		outcomes: map[string]int{}, parts: map[string]any{}}
	if *replay != "" {
		code := r.replay(*replay)
		os.RemoveAll(scratch)
		os.Exit(code)
	}
	rep := evidence.NewReporter("C12")
	start := time.Now()
	deadline = start.Add(15 * time.Minute)
	if tier == "thorough" {
		deadline = start.Add(60 * time.Minute)
	}
	want := func(p string) bool { return *only == "" || strings.Contains(","+*only+",", ","+p+",") }

	if want("alphabet") {
		t0 := time.Now()
		r.record("alphabet", partAlphabet(r.col, r.b.alphabetLen), false, t0)
	}
	if want("tokens") {
		t0 := time.Now()
		r.record("tokens", partTokens(r.col, r.b.tokens), true, t0)
	}
	if want("roundtrip") {
		t0 := time.Now()
		cat := roundTripCatalogue()
		pr := runSequences(r.col, "roundtrip", cat, r.b.roundTrip, nil)
		pr.Samples = []any{map[string]any{"part": "roundtrip", "query": renderQuery([]clause{cat[4], cat[len(cat)-12], cat[len(cat)-1]})}}
		r.record("roundtrip", pr, true, t0)
		t0 = time.Now()
		r.record("malformed", malformedAmongClauses(r.col, cat), true, t0)
	}
	if want("eval") {
		r.evalPopulations()
	}
	r.col.flush(rep)

	cov := map[string]any{
		"states":                        r.inputs,
		"transitions":                   r.calls,
		"traces_validated_against_impl": r.compared,
		"evaluations":                   r.calls,
		"distinct_nontrivial":           r.inputs,
		"exhaustive":                    *only == "" && !r.harness && !deadlineHit,
		"internal_deadline_hit":         deadlineHit,
		"rule": "states = inputs, distinct within each part: strings (alphabet, tokens), structured queries (roundtrip, malformed), (query, population stage) pairs (eval); " +
			"transitions = executions of query.Parse / RepoCacheBug.Query on them; traces_validated_against_impl = executions whose result was compared with the " +
			"reference (denotation of the clauses; reference evaluator over bugs read back from git); the alphabet strings are only required not to crash",
		"parts":             r.parts,
		"outcomes":          r.outcomes,
		"distinct_outcomes": len(r.outcomes),
		"samples":           r.samples,
	}
	if *only != "" {
		cov["only_parts"] = *only
	}
	ev := evidence.Evidence{PropertyID: "C12", Tier: tier, Seed: int(r.seed), Level: "model_checking", Coverage: cov,
		Assumptions: []string{
			"the documented language is doc/queries.md plus the statement's sub-qualifier (metadata:key:value): qualifier:value, double quotes around values with spaces, colons or apostrophes, bare or quoted search terms, at most one sort, clauses separated by one space; double quotes delimit and an apostrophe inside them is an ordinary character (values can't, can't reproduce, it's:here, 'tis 'twas, 'quoted' must round-trip for every qualifier kind and evaluate against a bug titled can't reproduce, a label it's, an identity O'Neil, a metadata value it's:here); an unterminated double quote is malformed whatever it contains; a metadata key is written like a value (in double quotes when it contains a space, a colon or an apostrophe: tracker url, origin:kind, it's key) and denotes the text between the quotes; a qualifier written in double quotes (\"status\":open, \"metadata\":\"tracker url\":v) is that qualifier, as the unchanged lexer treats every chunk alike",
			"where the documentation and the statement are silent the inputs avoid the question (label, metadata and search values never differ from population values only by case; search words are whole lower-case words with no near neighbours for the stemmer; the harness checks this and stops otherwise) or every outcome is accepted (single-quote-delimited values including an apostrophe outside double quotes such as title:can't, upper-case keywords, aliases, empty quoted values: never-panic only; several search terms: any set between all-of and any-of; fully tied bugs: any order)",
			"title matching is case-insensitive like name and login matching (doc/queries.md: queries are case insensitive); case-insensitive means Unicode simple case mapping per letter (strings.ToLower on both sides): names, logins and titles whose only capitals are non-ASCII (Émile, Ørsted, Überlauf, Дмитрий, Ωμέγα) or that are stored in lower case (zähler) are queried as stored, all lower, all upper and with only the non-ASCII letter flipped; letters whose case mapping is not one-to-one (ß/ẞ, dotless i, final sigma) are left out", "a query object handed to Query is the caller's: evaluating it must leave it as parsed and evaluating the same object again must give the same answer (checked for quoted multi-word search terms, three evaluations each; the phrase result itself is not compared with the reference)", "a search word may be carried by more than ten bugs (ubiquitous: all 12 bugs of the filters population, frequent: 11): the result must still be every satisfying bug", "sorted by creation / edit means by Lamport time, equal Lamport times by unix stamp (cache/bug_excerpt.go); default order is creation, descending",
			"the reference reads bugs and identities back from git at the entity level (bug.ReadAll), not from excerpts; interpreting operations into snapshots is C10's subject and trusted here",
			"free-text search right after a pull through the live cache is not evaluated (index freshness after a merge is C11's subject); the same population is evaluated with search after reopening",
			"bounded: populations, stages, catalogue and clause count as listed under parts",
		},
		WallS: time.Since(start).Seconds(), Violations: rep.Viol, Known: rep.KnownSeen()}
	if err := ev.Write(); err != nil {
		fmt.Fprintln(os.Stderr, "harness error: cannot write evidence:", err)
		os.RemoveAll(scratch)
		os.Exit(2)
	}
	fmt.Printf("C12: inputs=%d executions=%d compared=%d distinct_outcomes=%d violations=%d wall=%.1fs\n", r.inputs, r.calls, r.compared, len(r.outcomes), rep.Viol, time.Since(start).Seconds())
	os.RemoveAll(scratch)
	if r.harness && rep.Viol == 0 {
		os.Exit(2)
	}
	rep.Exit()
}

func (r *run) replay(path string) int {
	b, err := os.ReadFile(path)
	if err != nil {
		fmt.Fprintln(os.Stderr, err)
		return 2
	}
	var f struct {
		Oracle string         `json:"oracle"`
		Sig    string         `json:"sig"`
		Replay map[string]any `json:"replay"`
	}
	if err := json.Unmarshal(b, &f); err != nil {
		fmt.Fprintln(os.Stderr, err)
		return 2
	}
	str := func(k string) string { s, _ := f.Replay[k].(string); return s }
	var list []string
	if l, ok := f.Replay["clauses"].([]any); ok {
		for _, x := range l {
			s, _ := x.(string)
			list = append(list, s)
		}
	}
	switch str("part") {
	case "alphabet":
		if sig, detail, _ := parseVerdict(str("input")); sig != "" {
			r.col.add(finding{"never-panic", sig, detail, nil})
		}
	case "tokens":
		toks := tokenList()
		var seq []int
		if l, ok := f.Replay["tokens"].([]any); ok {
			for _, x := range l {
				n, _ := x.(float64)
				seq = append(seq, int(n))
			}
		}
		if sig, detail, _ := checkTokenString(toks, seq); sig != "" {
			r.col.add(finding{oracleOfTokenSig(sig), sig, detail, nil})
		}
	case "malformed":
		_, err, pan := safeParse(str("input"))
		if pan != nil {
			r.col.add(finding{"never-panic", "parse-panic", fmt.Sprint(pan), nil})
		} else if err == nil {
			r.col.add(finding{"round-trip", "malformed-accepted[" + str("why") + "]", "accepted: " + str("input"), nil})
		}
	case "roundtrip":
		cat := roundTripCatalogue()
		var seq []int
		for _, t := range list {
			for i, c := range cat {
				if c.Text == t {
					seq = append(seq, i)
					break
				}
			}
		}
		if v := checkSequence(cat, seq, nil); v.What != "" {
			sig := v.What
			if v.Kinds != "" {
				sig += "[" + v.Kinds + "]"
			}
			r.col.add(finding{v.Oracle, sig, v.Detail, nil})
		}
	case "eval", "eval-strings", "eval-case", "eval-repeat":
		r.onlyPart = str("part")
		r.onlyPop, r.onlyStage, r.onlyClauses, r.onlyInput = str("population"), str("stage"), list, str("input")
		r.evalPopulations()
		if r.harness {
			return 2
		}
	default:
		fmt.Fprintln(os.Stderr, "unknown replay part", str("part"))
		return 2
	}
	hit := false
	for k, fd := range r.col.first {
		fmt.Printf("  violation %s: %s\n", k, fd.Detail)
		if k == f.Oracle+"|"+f.Sig {
			hit = true
		}
	}
	if hit {
		fmt.Println("reproduced")
		return 1
	}
	fmt.Println("not reproduced")
	return 0
}
