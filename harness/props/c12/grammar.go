package c12

import (
	"fmt"
	"reflect"
	"strings"

	"github.com/MichaelMure/git-bug/entities/common"
	"github.com/MichaelMure/git-bug/query"
)

// A clause is one element of a structured query: what it looks like in the documented grammar
// (doc/queries.md: `qualifier:value`, `qualifier:"multi word value"`, `metadata:key:value`, a bare
// or quoted search term, `sort:key[-direction]`) and what it denotes.
type clause struct {
	Kind  string // status author actor participant label title nolabel metadata search sort
	Key   string // metadata key
	Value string // denoted value (unquoted)
	Text  string // rendering
}

// render writes a value the way doc/queries.md does: bare when it is a single word, in double
// quotes when it contains a space or a colon (or when forced). A value containing an apostrophe
// is written in double quotes too: in the documented language double quotes delimit and the other
// quote character inside them is an ordinary character (an apostrophe outside double quotes opens
// a single-quoted section, which the documentation does not mention: never-panic only).
func renderValue(v string, force bool) string {
	if force || strings.ContainsAny(v, " :'") {
		return `"` + v + `"`
	}
	return v
}

func mk(kind, value string, forceQuote bool) clause {
	switch kind {
	case "nolabel":
		return clause{Kind: kind, Text: "no:label"}
	case "search":
		return clause{Kind: kind, Value: value, Text: renderValue(value, forceQuote)}
	default:
		return clause{Kind: kind, Value: value, Text: kind + ":" + renderValue(value, forceQuote)}
	}
}

func mkMeta(key, value string, forceQuote bool) clause {
	return clause{Kind: "metadata", Key: key, Value: value, Text: "metadata:" + renderValue(key, false) + ":" + renderValue(value, forceQuote)}
}

var sortValues = []string{"id", "id-asc", "id-desc", "creation", "creation-asc", "creation-desc", "edit", "edit-asc", "edit-desc"}

func sortClauses() []clause {
	var out []clause
	for _, s := range sortValues {
		out = append(out, mk("sort", s, false))
	}
	return out
}

// sortMeaning is the table of doc/queries.md ("Sorting").
func sortMeaning(v string) (query.OrderBy, query.OrderDirection) {
	switch v {
	case "id", "id-asc":
		return query.OrderById, query.OrderAscending
	case "id-desc":
		return query.OrderById, query.OrderDescending
	case "creation", "creation-desc":
		return query.OrderByCreation, query.OrderDescending
	case "creation-asc":
		return query.OrderByCreation, query.OrderAscending
	case "edit", "edit-desc":
		return query.OrderByEdit, query.OrderDescending
	case "edit-asc":
		return query.OrderByEdit, query.OrderAscending
	}
	panic("bad sort value " + v)
}

// roundTripCatalogue is the clause alphabet of part (b): every qualifier with values from
// {word, Cased, two words (quoted), unicode, value containing ':' (quoted), word in quotes} and,
// all in double quotes, values containing apostrophes: one word, two words, apostrophe and colon,
// two apostrophes (balanced for a lexer that lets either quote character close a section), a word
// wrapped in apostrophes (would lose them if quotes were stripped twice); metadata keys that must be
// quoted; quoted qualifiers.
func roundTripCatalogue() []clause {
	type val struct {
		v     string
		force bool
	}
	values := []val{{"word", false}, {"Cased", false}, {"two words", false}, {"René", false}, {"a:b", false}, {"word", true},
		{"can't", false}, {"can't reproduce", false}, {"it's:here", false}, {"'tis 'twas", false}, {"'quoted'", false}}
	out := []clause{mk("status", "open", false), mk("status", "closed", false)}
	for _, kind := range []string{"author", "actor", "participant", "label", "title", "search"} {
		for _, v := range values {
			out = append(out, mk(kind, v.v, v.force))
		}
	}
	out = append(out, mk("nolabel", "", false))
	for _, key := range []string{"github-id", "origin"} {
		for _, v := range append(append([]val{}, values[:3]...), val{"it's:here", false}, val{"'tis 'twas", false}) {
			out = append(out, mkMeta(key, v.v, v.force))
		}
	}
	// metadata keys that can only be written in double quotes (a space, a colon, an apostrophe), with
	// unquoted and quoted values
	for _, key := range []string{"tracker url", "origin:kind", "it's key"} {
		for _, v := range []val{{"word", false}, {"word", true}, {"two words", false}, {"it's:here", false}} {
			out = append(out, mkMeta(key, v.v, v.force))
		}
	}
	// a qualifier written in double quotes is that qualifier (what the unchanged lexer does with
	// every chunk; the documentation only shows quoted values)
	for _, c := range []clause{mk("status", "open", false), mk("label", "word", false), mk("author", "two words", false), mk("nolabel", "", false),
		mk("sort", "id-desc", false), mkMeta("tracker url", "a:b", false)} {
		out = append(out, quoteQualifier(c))
	}
	return append(out, sortClauses()...)
}

// quoteQualifier renders the clause with its qualifier in double quotes: "status":open,
// "metadata":"tracker url":"a:b". The denotation is unchanged.
func quoteQualifier(c clause) clause {
	i := strings.IndexByte(c.Text, ':')
	c.Text = `"` + c.Text[:i] + `"` + c.Text[i:]
	return c
}

func renderQuery(cs []clause) string {
	parts := make([]string, len(cs))
	for i, c := range cs {
		parts[i] = c.Text
	}
	return strings.Join(parts, " ")
}

// denote builds the query a clause list stands for; wantErr is set when the documented language
// forbids it (more than one sort).
func denote(cs []clause) (q *query.Query, wantErr bool) {
	q = &query.Query{OrderBy: query.OrderByCreation, OrderDirection: query.OrderDescending} // documented default: creation, descending
	sorts := 0
	for _, c := range cs {
		switch c.Kind {
		case "status":
			if c.Value == "open" {
				q.Status = append(q.Status, common.OpenStatus)
			} else {
				q.Status = append(q.Status, common.ClosedStatus)
			}
		case "author":
			q.Author = append(q.Author, c.Value)
		case "actor":
			q.Actor = append(q.Actor, c.Value)
		case "participant":
			q.Participant = append(q.Participant, c.Value)
		case "label":
			q.Label = append(q.Label, c.Value)
		case "title":
			q.Title = append(q.Title, c.Value)
		case "nolabel":
			q.NoLabel = true
		case "metadata":
			q.Metadata = append(q.Metadata, query.StringPair{Key: c.Key, Value: c.Value})
		case "search":
			q.Search = append(q.Search, c.Value)
		case "sort":
			sorts++
			q.OrderBy, q.OrderDirection = sortMeaning(c.Value)
		}
	}
	return q, sorts > 1
}

// sameQuery compares two queries field by field (nil and empty lists are the same thing).
func sameQuery(a, b *query.Query) (bool, string) {
	type flat struct {
		Search      []string
		Status      []common.Status
		Author      []string
		Metadata    []query.StringPair
		Actor       []string
		Participant []string
		Label       []string
		Title       []string
		NoLabel     bool
		By          query.OrderBy
		Dir         query.OrderDirection
	}
	f := func(q *query.Query) flat {
		return flat{append([]string{}, q.Search...), append([]common.Status{}, q.Status...), append([]string{}, q.Author...),
			append([]query.StringPair{}, q.Metadata...), append([]string{}, q.Actor...), append([]string{}, q.Participant...),
			append([]string{}, q.Label...), append([]string{}, q.Title...), q.NoLabel, q.OrderBy, q.OrderDirection}
	}
	fa, fb := f(a), f(b)
	if reflect.DeepEqual(fa, fb) {
		return true, ""
	}
	va, vb := reflect.ValueOf(fa), reflect.ValueOf(fb)
	for i := 0; i < va.NumField(); i++ {
		if !reflect.DeepEqual(va.Field(i).Interface(), vb.Field(i).Interface()) {
			return false, fmt.Sprintf("%s: parsed %v, denoted %v", va.Type().Field(i).Name, va.Field(i).Interface(), vb.Field(i).Interface())
		}
	}
	return false, "differ"
}

func safeParse(s string) (q *query.Query, err error, panicked any) {
	defer func() { panicked = recover() }()
	q, err = query.Parse(s)
	return
}

// malformedPieces must be rejected wherever they stand among well-formed, quote-free clauses.
var malformedPieces = []struct{ Text, Why string }{
	{"sort:bogus", "unknown sort value"},
	{"sort:id-up", "unknown sort direction"},
	{"status:bogus", "unknown status"},
	{"unknown:x", "unknown qualifier"},
	{"no:bogus", "unknown no: filter"},
	{"unknown:k:v", "unknown qualifier with sub-qualifier"},
	{"label:", "empty value"},
	{":prod", "empty qualifier"},
	{":", "empty qualifier and value"},
	{"metadata:k:", "empty value after sub-qualifier"},
	{"metadata::v", "empty sub-qualifier"},
	{"a:b:c:d", "too many separators"},
	{"label::prod", "empty part between two colons"},
	{"metadata:k::v", "empty part between two colons"},
	{`title:"unterminated`, "unmatched double quote"},
	{`"unterminated phrase`, "unmatched double quote"},
	{`title:"can't`, "unmatched double quote around an apostrophe"},
	{`"can't`, "unmatched double quote around an apostrophe"},
	{`label:"it's`, "unmatched double quote around an apostrophe"},
}

// Sequences of 1..maxLen indices below n are enumerated in length-then-lexicographic order and
// addressed by their number, so that an enumeration can be sharded: sequenceCount is how many
// there are.
func sequenceCount(n, maxLen int) int {
	total, p := 0, 1
	for l := 1; l <= maxLen; l++ {
		p *= n
		total += p
	}
	return total
}

// nthSequence decodes sequence number i (0-based) of the enumeration above.
func nthSequence(i, n, maxLen int, buf []int) []int {
	p := 1
	for l := 1; l <= maxLen; l++ {
		p *= n
		if i < p {
			buf = buf[:0]
			digits := make([]int, l)
			for k := l - 1; k >= 0; k-- {
				digits[k] = i % n
				i /= n
			}
			return append(buf, digits...)
		}
		i -= p
	}
	panic("sequence index out of range")
}
