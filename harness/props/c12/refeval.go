package c12

import (
	"fmt"
	"sort"
	"strings"
	"unicode"

	"github.com/MichaelMure/git-bug/entities/bug"
	"github.com/MichaelMure/git-bug/entities/common"
	"github.com/MichaelMure/git-bug/entities/identity"
	"github.com/MichaelMure/git-bug/repository"
)

// The reference evaluator works on bugs read back from git at the entity level (compiled
// snapshots with resolved identities), never on the cache's excerpts, and on the clauses a query
// was rendered from, never on what the parser made of the text.

type refIdent struct{ Id, Name, Login string }

type refBug struct {
	Id           string
	Name         string // name inside the population spec ("" when unknown)
	Open         bool
	Labels       []string
	Title        string
	Author       refIdent
	Actors       []refIdent
	Participants []refIdent
	CreateMeta   map[string]string
	CreateL      uint64
	EditL        uint64
	CreateU      int64
	EditU        int64
	Texts        []string // title and comment messages
}

func mkIdent(i identity.Interface) refIdent {
	return refIdent{Id: string(i.Id()), Name: i.Name(), Login: i.Login()}
}

func readReference(repo repository.ClockedRepo, names map[string]string) ([]refBug, error) {
	var out []refBug
	for se := range bug.ReadAll(repo) {
		if se.Err != nil {
			return nil, se.Err
		}
		b := se.Entity
		snap := b.Compile()
		ops := b.Operations()
		rb := refBug{Id: string(b.Id()), Name: names[string(b.Id())], Open: snap.Status == common.OpenStatus, Title: snap.Title,
			Author: mkIdent(snap.Author), CreateMeta: map[string]string{},
			CreateL: uint64(b.CreateLamportTime()), EditL: uint64(b.EditLamportTime()),
			CreateU: ops[0].Time().Unix(), EditU: ops[len(ops)-1].Time().Unix()}
		for _, l := range snap.Labels {
			rb.Labels = append(rb.Labels, string(l))
		}
		for _, a := range snap.Actors {
			rb.Actors = append(rb.Actors, mkIdent(a))
		}
		for _, a := range snap.Participants {
			rb.Participants = append(rb.Participants, mkIdent(a))
		}
		for k, v := range ops[0].AllMetadata() {
			rb.CreateMeta[k] = v
		}
		rb.Texts = append(rb.Texts, snap.Title)
		for _, c := range snap.Comments {
			rb.Texts = append(rb.Texts, c.Message)
		}
		out = append(out, rb)
	}
	sort.Slice(out, func(i, j int) bool { return out[i].Id < out[j].Id })
	return out, nil
}

func lower(s string) string { return strings.Map(unicode.ToLower, s) }

// identMatches: doc/queries.md — `author:descartes` matches `René Descartes` and `Robert
// Descartes`, queries are case insensitive, an id prefix can be used instead of a name; the
// statement: case-insensitive matching of names, logins and id prefixes.
func identMatches(i refIdent, v string) bool {
	lv := lower(v)
	return strings.HasPrefix(i.Id, lv) || strings.Contains(lower(i.Name), lv) || strings.Contains(lower(i.Login), lv)
}

func words(s string) []string {
	return strings.FieldsFunc(s, func(r rune) bool { return !unicode.IsLetter(r) && !unicode.IsDigit(r) })
}

// satisfies: does the bug satisfy one filtering clause?
func (b *refBug) satisfies(c clause) bool {
	switch c.Kind {
	case "status":
		return b.Open == (c.Value == "open")
	case "author":
		return identMatches(b.Author, c.Value)
	case "actor":
		for _, a := range b.Actors {
			if identMatches(a, c.Value) {
				return true
			}
		}
		return false
	case "participant":
		for _, a := range b.Participants {
			if identMatches(a, c.Value) {
				return true
			}
		}
		return false
	case "label": // "label:prod matches bugs with the label prod"
		for _, l := range b.Labels {
			if l == c.Value {
				return true
			}
		}
		return false
	case "title": // "matches bugs with a title containing ..."; "queries are case insensitive" (doc/queries.md)
		return strings.Contains(lower(b.Title), lower(c.Value))
	case "nolabel":
		return len(b.Labels) == 0
	case "metadata":
		v, ok := b.CreateMeta[c.Key]
		return ok && v == c.Value
	case "search": // compared only for whole words of a title or comment
		for _, t := range b.Texts {
			for _, w := range words(t) {
				if w == c.Value {
					return true
				}
			}
		}
		return false
	}
	panic("not a filtering clause: " + c.Kind)
}

// distinguishing reports why a clause would make the reference depend on something the statement
// and the documentation leave open (case sensitivity of label, metadata and free-text
// matching; stemming of search words): such clauses must not be in the catalogue.
func distinguishing(bugs []refBug, c clause) string {
	for i := range bugs {
		b := &bugs[i]
		switch c.Kind {
		case "label":
			for _, l := range b.Labels {
				if (l == c.Value) != strings.EqualFold(l, c.Value) {
					return fmt.Sprintf("label %q differs from %q only by case", l, c.Value)
				}
			}
		case "metadata":
			for k, v := range b.CreateMeta {
				if strings.EqualFold(k, c.Key) && strings.EqualFold(v, c.Value) && (k != c.Key || v != c.Value) {
					return fmt.Sprintf("metadata %s=%s differs only by case", k, v)
				}
			}
		case "search":
			if c.Value != lower(c.Value) || len(words(c.Value)) != 1 {
				return "search term is not a single lower-case word"
			}
			for _, t := range b.Texts {
				for _, w := range words(t) {
					// a word sharing its first 4 letters with the term without being the term could be
					// stemmed to the same token
					if w != c.Value && len(w) >= 4 && len(c.Value) >= 4 && strings.EqualFold(w[:4], c.Value[:4]) {
						return fmt.Sprintf("text word %q is close to search term %q (stemming)", w, c.Value)
					}
				}
			}
		}
	}
	return ""
}

type sortKey struct {
	by  string // id creation edit
	asc bool
}

func sortKeyOf(cs []clause) sortKey {
	k := sortKey{"creation", false} // documented default
	for _, c := range cs {
		if c.Kind == "sort" {
			parts := strings.SplitN(c.Value, "-", 2)
			k.by = parts[0]
			k.asc = k.by == "id" // "sort:id" is ascending, the time sorts default to descending
			if len(parts) == 2 {
				k.asc = parts[1] == "asc"
			}
		}
	}
	return k
}

// cmp orders two bugs by the requested key: ids as strings; creation and edit by the logical
// (Lamport) time, equal logical times by the unix time stamp. 0 = tied beyond the documented keys.
func cmpBugs(a, b *refBug, by string) int {
	c3 := func(x, y int64) int {
		switch {
		case x < y:
			return -1
		case x > y:
			return 1
		}
		return 0
	}
	switch by {
	case "id":
		return strings.Compare(a.Id, b.Id)
	case "creation":
		if c := c3(int64(a.CreateL), int64(b.CreateL)); c != 0 {
			return c
		}
		return c3(a.CreateU, b.CreateU)
	default:
		if c := c3(int64(a.EditL), int64(b.EditL)); c != 0 {
			return c
		}
		return c3(a.EditU, b.EditU)
	}
}
