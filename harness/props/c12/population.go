package c12

import (
	"fmt"
	"path/filepath"
	"strings"

	"github.com/MichaelMure/git-bug/cache"
	"github.com/MichaelMure/git-bug/entities/identity"
	"github.com/MichaelMure/git-bug/entity"
	"github.com/MichaelMure/git-bug/repository"
	"github.com/MichaelMure/git-bug/verifshim/vctl"

	"verifharness/world"
)

// identities of every population: name / login variants (shared family name, unicode, a login in
// upper case, a login containing another one's name, nobody's login empty).
type identSpec struct{ Key, Name, Login string }

var identSpecs = []identSpec{
	{"I0", "René Descartes", "rdescartes"},
	{"I1", "Robert Descartes", ""},
	{"I2", "Ada Lovelace", "ADA-L"},
	{"I3", "bob", "descartes-fan"},
	{"I4", "Zoé Unrelated", "zoe"},
	{"I5", "Sean O'Neil", "sean"},
	// names and logins whose ONLY capitals are non-ASCII (Latin-1, Cyrillic, Greek), and an
	// all-lower-case one that is queried with capitals
	{"I6", "Émile", "Ørsted"},
	{"I7", "Дмитрий", "Überlauf"},
	{"I8", "Ωμέγα", "zähler"},
}

// step is one action through the real cache (each one is committed on its own, so every step is
// one tick of the replica's edit clock; "new" also ticks its creation clock).
type step struct {
	Op     string // new comment close open title labels
	Bug    string // name of the bug inside the population
	By     string // identity key
	Unix   int64
	Title  string
	Msg    string
	Add    []string
	Remove []string
	Meta   map[string]string
}

type replicaSpec struct {
	Name  string
	Steps []step
}

type popSpec struct {
	Name     string
	Replicas []replicaSpec // replica "A" collects; others work independently and push
	Live     []step        // further actions through A's live cache after everything was collected
}

func popSpecs() []popSpec {
	filters := popSpec{Name: "filters", Replicas: []replicaSpec{{"A", []step{
		{Op: "new", Bug: "b1", By: "I0", Unix: 1000, Title: "Critical crash in parser", Msg: "zebra sighting ubiquitous", Meta: map[string]string{"github-id": "42"}},
		{Op: "labels", Bug: "b1", By: "I0", Unix: 1001, Add: []string{"prod"}},
		{Op: "new", Bug: "b2", By: "I1", Unix: 1010, Title: "Typo in string", Msg: "quokka here ubiquitous"},
		{Op: "labels", Bug: "b2", By: "I1", Unix: 1011, Add: []string{"prod", "Good first issue"}},
		{Op: "comment", Bug: "b2", By: "I3", Unix: 1012, Msg: "second zebra"},
		{Op: "close", Bug: "b2", By: "I2", Unix: 1013},
		{Op: "new", Bug: "b3", By: "I2", Unix: 1020, Title: "crash a:b reported", Msg: "nothing special ubiquitous", Meta: map[string]string{"github-id": "43", "origin": "two words"}},
		{Op: "new", Bug: "b4", By: "I3", Unix: 1030, Title: "Unrelated étude", Msg: "plain text ubiquitous"},
		{Op: "labels", Bug: "b4", By: "I3", Unix: 1031, Add: []string{"étiquette", "production"}},
		{Op: "comment", Bug: "b4", By: "I0", Unix: 1032, Msg: "quokka again"},
		{Op: "close", Bug: "b4", By: "I1", Unix: 1033},
		{Op: "open", Bug: "b4", By: "I1", Unix: 1034},
		{Op: "new", Bug: "b5", By: "I0", Unix: 1040, Title: "Critical Typo in string twice", Msg: "lynx ubiquitous", Meta: map[string]string{"github-id": "42"}},
		{Op: "labels", Bug: "b5", By: "I4", Unix: 1041, Add: []string{"Good first issue"}},
		{Op: "new", Bug: "b6", By: "I1", Unix: 1050, Title: "okapi", Msg: "nothing ubiquitous"},
		{Op: "close", Bug: "b6", By: "I1", Unix: 1051},
		{Op: "new", Bug: "b7", By: "I2", Unix: 1060, Title: "parser crash", Msg: "okapi and zebra ubiquitous", Meta: map[string]string{"origin": "none"}},
		{Op: "labels", Bug: "b7", By: "I2", Unix: 1061, Add: []string{"prod", "production", "temporary"}},
		{Op: "labels", Bug: "b7", By: "I2", Unix: 1062, Remove: []string{"temporary"}},
		{Op: "comment", Bug: "b7", By: "I1", Unix: 1063, Msg: "me too"},
		{Op: "title", Bug: "b7", By: "I0", Unix: 1064, Title: "Critical parser crash"},
		{Op: "new", Bug: "b8", By: "I3", Unix: 1070, Title: "labelled then not", Msg: "quokka zebra ubiquitous"},
		{Op: "labels", Bug: "b8", By: "I3", Unix: 1071, Add: []string{"prod"}},
		{Op: "labels", Bug: "b8", By: "I3", Unix: 1072, Remove: []string{"prod"}},
		{Op: "new", Bug: "b9", By: "I5", Unix: 1080, Title: "can't reproduce", Msg: "lynx ubiquitous", Meta: map[string]string{"origin": "it's:here"}},
		{Op: "labels", Bug: "b9", By: "I5", Unix: 1081, Add: []string{"it's"}},
		{Op: "comment", Bug: "b1", By: "I5", Unix: 1082, Msg: "me neither"},
		// titles whose only capitals are non-ASCII; author / commenter (participant) / closer (actor only) differ
		{Op: "new", Bug: "b10", By: "I6", Unix: 1090, Title: "Überlauf im zähler", Msg: "lynx ubiquitous", Meta: map[string]string{"tracker url": "https://example.org/2", "origin:kind": "two words"}},
		{Op: "comment", Bug: "b10", By: "I7", Unix: 1091, Msg: "plain"},
		{Op: "close", Bug: "b10", By: "I8", Unix: 1092},
		{Op: "new", Bug: "b11", By: "I7", Unix: 1100, Title: "Дмитрий und Ωμέγα", Msg: "lynx ubiquitous"},
		{Op: "comment", Bug: "b11", By: "I8", Unix: 1101, Msg: "plain"},
		{Op: "labels", Bug: "b11", By: "I6", Unix: 1102, Add: []string{"prod"}},
		{Op: "new", Bug: "b12", By: "I8", Unix: 1110, Title: "Émile trifft Ørsted", Msg: "lynx ubiquitous", Meta: map[string]string{"tracker url": "https://example.org/1", "origin:kind": "mirror"}},
		// a search word carried by more than ten bugs: every create message ends with "ubiquitous", and
		// all bugs but b6 get a comment by their own author carrying "frequent"
		{Op: "comment", Bug: "b1", By: "I0", Unix: 1200, Msg: "this is frequent"},
		{Op: "comment", Bug: "b2", By: "I1", Unix: 1201, Msg: "this is frequent"},
		{Op: "comment", Bug: "b3", By: "I2", Unix: 1202, Msg: "this is frequent"},
		{Op: "comment", Bug: "b4", By: "I3", Unix: 1203, Msg: "this is frequent"},
		{Op: "comment", Bug: "b5", By: "I0", Unix: 1204, Msg: "this is frequent"},
		{Op: "comment", Bug: "b7", By: "I2", Unix: 1205, Msg: "this is frequent"},
		{Op: "comment", Bug: "b8", By: "I3", Unix: 1206, Msg: "this is frequent"},
		{Op: "comment", Bug: "b9", By: "I5", Unix: 1207, Msg: "this is frequent"},
		{Op: "comment", Bug: "b10", By: "I6", Unix: 1208, Msg: "this is frequent"},
		{Op: "comment", Bug: "b11", By: "I7", Unix: 1209, Msg: "this is frequent"},
		{Op: "comment", Bug: "b12", By: "I8", Unix: 1210, Msg: "this is frequent"},
	}}}}

	// Two replicas work independently (equal Lamport times), with unix stamps chosen so that equal
	// Lamport times come with smaller, larger and equal stamps; A collects everything.
	ties := popSpec{Name: "ties", Replicas: []replicaSpec{
		{"A", nil},
		{"B", []step{
			{Op: "new", Bug: "bB1", By: "I0", Unix: 100, Title: "Critical crash in parser", Msg: "zebra"},
			{Op: "new", Bug: "bB2", By: "I1", Unix: 300, Title: "Typo in string", Msg: "quokka"},
			{Op: "new", Bug: "bB3", By: "I0", Unix: 200, Title: "parser crash", Msg: "okapi", Meta: map[string]string{"github-id": "42"}},
			{Op: "comment", Bug: "bB1", By: "I3", Unix: 500, Msg: "quokka too"},
			{Op: "labels", Bug: "bB2", By: "I1", Unix: 450, Add: []string{"prod"}},
		}},
		{"C", []step{
			{Op: "new", Bug: "bC1", By: "I2", Unix: 200, Title: "Unrelated étude", Msg: "zebra"},
			{Op: "new", Bug: "bC2", By: "I3", Unix: 300, Title: "crash a:b reported", Msg: "lynx", Meta: map[string]string{"github-id": "43"}},
			{Op: "new", Bug: "bC3", By: "I2", Unix: 100, Title: "okapi", Msg: "nothing"},
			{Op: "close", Bug: "bC2", By: "I2", Unix: 400},
			{Op: "labels", Bug: "bC3", By: "I1", Unix: 450, Add: []string{"prod", "Good first issue"}},
		}},
	}, Live: []step{
		{Op: "comment", Bug: "bB2", By: "I3", Unix: 250, Msg: "late zebra"},
		{Op: "new", Bug: "bA1", By: "I4", Unix: 50, Title: "Critical late one", Msg: "okapi"},
		{Op: "close", Bug: "bC1", By: "I0", Unix: 40},
	}}
	specs := []popSpec{filters, ties}
	{
		// the same tie structure with the stamps mirrored (what was smaller is larger) and three workers
		mirror := popSpec{Name: "ties-mirrored", Replicas: []replicaSpec{
			{"A", nil},
			{"B", []step{
				{Op: "new", Bug: "bB1", By: "I1", Unix: 900, Title: "Typo in string", Msg: "zebra"},
				{Op: "new", Bug: "bB2", By: "I0", Unix: 700, Title: "Critical crash in parser", Msg: "quokka"},
				{Op: "close", Bug: "bB1", By: "I1", Unix: 600},
			}},
			{"C", []step{
				{Op: "new", Bug: "bC1", By: "I2", Unix: 800, Title: "parser crash", Msg: "okapi"},
				{Op: "new", Bug: "bC2", By: "I3", Unix: 700, Title: "okapi", Msg: "zebra", Meta: map[string]string{"origin": "two words"}},
				{Op: "labels", Bug: "bC1", By: "I2", Unix: 650, Add: []string{"production"}},
			}},
			{"D", []step{
				{Op: "new", Bug: "bD1", By: "I3", Unix: 850, Title: "crash a:b reported", Msg: "lynx"},
				{Op: "new", Bug: "bD2", By: "I0", Unix: 750, Title: "Unrelated étude", Msg: "quokka"},
				{Op: "comment", Bug: "bD1", By: "I2", Unix: 600, Msg: "zebra"},
			}},
		}, Live: []step{
			{Op: "title", Bug: "bD2", By: "I1", Unix: 10, Title: "Critical étude"},
		}}
		specs = append(specs, mirror)
	}
	return specs
}

// population is a built world: the collecting replica's repository and cache, the identities
// and bug names.
type population struct {
	Spec   popSpec
	dir    string
	repo   *repository.GoGitRepo
	cache  *cache.RepoCache
	Idents map[string]entity.Id // key -> id
	Bugs   map[string]entity.Id // name -> id
}

func openCache(path string) (*repository.GoGitRepo, *cache.RepoCache, error) {
	repo, err := repository.OpenGoGitRepo(path, world.Namespace, nil)
	if err != nil {
		return nil, nil, err
	}
	c, err := cache.NewRepoCacheNoEvents(repo)
	if err != nil {
		return nil, nil, err
	}
	return repo, c, nil
}

func (p *population) apply(c *cache.RepoCache, steps []step) error {
	for _, st := range steps {
		who, err := c.Identities().Resolve(p.Idents[st.By])
		if err != nil {
			return fmt.Errorf("step %+v: identity: %w", st, err)
		}
		if st.Op == "new" {
			b, _, err := c.Bugs().NewRaw(who, st.Unix, st.Title, st.Msg, nil, st.Meta)
			if err != nil {
				return fmt.Errorf("step %+v: %w", st, err)
			}
			p.Bugs[st.Bug] = b.Id()
			continue
		}
		b, err := c.Bugs().Resolve(p.Bugs[st.Bug])
		if err != nil {
			return fmt.Errorf("step %+v: %w", st, err)
		}
		switch st.Op {
		case "comment":
			_, _, err = b.AddCommentRaw(who, st.Unix, st.Msg, nil, nil)
		case "close":
			_, err = b.CloseRaw(who, st.Unix, nil)
		case "open":
			_, err = b.OpenRaw(who, st.Unix, nil)
		case "title":
			_, err = b.SetTitleRaw(who, st.Unix, st.Title, nil)
		case "labels":
			_, _, err = b.ChangeLabelsRaw(who, st.Unix, st.Add, st.Remove, nil)
		default:
			err = fmt.Errorf("unknown op")
		}
		if err != nil {
			return fmt.Errorf("step %+v: %w", st, err)
		}
		if err := b.Commit(); err != nil {
			return fmt.Errorf("step %+v: commit: %w", st, err)
		}
	}
	return nil
}

// stageFn is called with the population in each state in which queries are to be evaluated.
// withSearch=false marks the state right after a pull through the live cache, where free-text
// search is another property's business (C11: merged entities and the index).
type stageFn func(p *population, stage string, withSearch bool) error

// build creates the world of spec under dir and calls eval at every evaluation stage.
func build(dir string, seed uint64, spec popSpec, eval stageFn) error {
	vctl.Activate(seed, 0)
	var names []string
	for _, r := range spec.Replicas {
		names = append(names, r.Name)
	}
	var remotes []string
	if len(names) > 1 {
		remotes = []string{"R"}
	}
	w, err := world.Create(dir, names, remotes, false)
	if err != nil {
		return err
	}
	w.Close() // the caches open their own handles
	p := &population{Spec: spec, dir: dir, Idents: map[string]entity.Id{}, Bugs: map[string]entity.Id{}}
	pathOf := func(n string) string { return filepath.Join(dir, n) }

	// identities: created through A's cache
	vctl.SetActor("A")
	repo, c, err := openCache(pathOf("A"))
	if err != nil {
		return err
	}
	for _, is := range identSpecs {
		ic, err := c.Identities().NewRaw(is.Name, strings.ToLower(is.Key)+"@example.org", is.Login, "", nil, nil)
		if err != nil {
			return err
		}
		p.Idents[is.Key] = ic.Id()
		if is.Key == "I4" {
			if err := c.SetUserIdentity(ic); err != nil {
				return err
			}
		}
	}
	single := len(names) == 1
	if single {
		if err := p.apply(c, spec.Replicas[0].Steps); err != nil {
			return err
		}
		p.repo, p.cache = repo, c
		if err := eval(p, "live cache that made every change", true); err != nil {
			return err
		}
		if err := c.Close(); err != nil {
			return err
		}
		if p.repo, p.cache, err = openCache(pathOf("A")); err != nil {
			return err
		}
		if err := eval(p, "cache reopened from its files", true); err != nil {
			return err
		}
		return p.cache.Close()
	}

	if _, err := c.Push("R"); err != nil {
		return err
	}
	if err := c.Close(); err != nil {
		return err
	}
	// the workers take the identities first, then act without seeing each other, then push
	var workers []*cache.RepoCache
	for _, r := range spec.Replicas[1:] {
		vctl.SetActor(r.Name)
		// a worker takes the identities at the entity level (the cache's MergeAll wants a user
		// identity, which the worker can only have once the identities are there), then opens its cache
		wr, err := repository.OpenGoGitRepo(pathOf(r.Name), world.Namespace, nil)
		if err != nil {
			return err
		}
		if err := identity.Pull(wr, "R"); err != nil {
			return fmt.Errorf("%s: pulling identities: %w", r.Name, err)
		}
		if err := wr.Close(); err != nil {
			return err
		}
		_, wc, err := openCache(pathOf(r.Name))
		if err != nil {
			return err
		}
		u, err := wc.Identities().Resolve(p.Idents["I4"])
		if err != nil {
			return err
		}
		if err := wc.SetUserIdentity(u); err != nil {
			return err
		}
		workers = append(workers, wc)
	}
	for i, r := range spec.Replicas[1:] {
		vctl.SetActor(r.Name)
		if err := p.apply(workers[i], r.Steps); err != nil {
			return fmt.Errorf("%s: %w", r.Name, err)
		}
	}
	for i, r := range spec.Replicas[1:] {
		vctl.SetActor(r.Name)
		if _, err := workers[i].Push("R"); err != nil {
			return fmt.Errorf("%s: push: %w", r.Name, err)
		}
		if err := workers[i].Close(); err != nil {
			return err
		}
	}
	// A collects
	vctl.SetActor("A")
	if p.repo, p.cache, err = openCache(pathOf("A")); err != nil {
		return err
	}
	if err := p.cache.Pull("R"); err != nil {
		return fmt.Errorf("A: pull: %w", err)
	}
	if err := eval(p, "live cache right after pulling (no free-text search)", false); err != nil {
		return err
	}
	if err := p.cache.Close(); err != nil {
		return err
	}
	if p.repo, p.cache, err = openCache(pathOf("A")); err != nil {
		return err
	}
	if err := eval(p, "cache reopened after the pull", true); err != nil {
		return err
	}
	if len(spec.Live) > 0 {
		if err := p.apply(p.cache, spec.Live); err != nil {
			return err
		}
		if err := eval(p, "live cache after further changes", true); err != nil {
			return err
		}
	}
	return p.cache.Close()
}
