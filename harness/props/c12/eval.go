package c12

import (
	"fmt"
	"math/bits"
	"sort"
	"strings"
	"sync"
	"unicode"

	"github.com/MichaelMure/git-bug/cache"
	"github.com/MichaelMure/git-bug/entities/common"
	"github.com/MichaelMure/git-bug/entity"
	"github.com/MichaelMure/git-bug/query"

	"verifharness/par"
)

// evalCatalogue is the clause alphabet of part (c) for a population: values that hit names,
// logins (any case), id prefixes (any case), several identities at once, nobody; labels, title
// fragments, metadata and search words that occur in some bugs and not in others.
func evalCatalogue(p *population) []clause {
	idPrefix := func(key string) string {
		id := string(p.Idents[key])
		n := 6
		for n < len(id) && !strings.ContainsAny(id[:n], "abcdef") {
			n++
		}
		return id[:n]
	}
	people := []string{"descartes", "René", "rené descartes", "ADA", "ada-l", idPrefix("I1"), strings.ToUpper(idPrefix("I3")), "nobody", "O'Neil"}
	out := []clause{mk("status", "open", false), mk("status", "closed", false)}
	for _, kind := range []string{"author", "actor", "participant"} {
		for _, v := range people {
			out = append(out, mk(kind, v, false))
		}
	}
	for _, v := range []string{"prod", "Good first issue", "étiquette", "missing", "it's"} {
		out = append(out, mk("label", v, false))
	}
	for _, v := range []string{"Critical", "Typo in string", "crash", "a:b", "zzz", "can't reproduce"} {
		out = append(out, mk("title", v, false))
	}
	out = append(out, mk("nolabel", "", false))
	out = append(out, mkMeta("github-id", "42", false), mkMeta("github-id", "43", false), mkMeta("origin", "two words", false), mkMeta("origin", "absent", false), mkMeta("origin", "it's:here", false))
	for _, v := range []string{"zebra", "quokka", "okapi", "absentword", "ubiquitous", "frequent"} {
		out = append(out, mk("search", v, false))
	}
	return append(out, sortClauses()...)
}

// caseWords are stored with exactly this spelling in names, logins and titles of the "filters"
// population: their only capitals (if any) are non-ASCII.
var caseWords = []string{"Émile", "Ørsted", "Überlauf", "Дмитрий", "Ωμέγα", "zähler"}

// caseVariants: as stored, all lower, all upper, only the first non-ASCII letter's case flipped.
func caseVariants(w string) []string {
	flipped := []rune(w)
	for i, r := range flipped {
		if r > 127 && unicode.IsLetter(r) {
			if unicode.IsUpper(r) {
				flipped[i] = unicode.ToLower(r)
			} else {
				flipped[i] = unicode.ToUpper(r)
			}
			break
		}
	}
	var out []string
	seen := map[string]bool{}
	for _, v := range []string{w, strings.ToLower(w), strings.ToUpper(w), string(flipped)} {
		if !seen[v] {
			seen[v] = true
			out = append(out, v)
		}
	}
	return out
}

// caseCatalogue is a second clause alphabet for the "filters" population: author / actor /
// participant / title x every case variant of every caseWord, metadata with keys that must be
// quoted, clauses with a quoted qualifier, plus status and two sorts to combine with. It is
// enumerated to 2 clauses.
func caseCatalogue() []clause {
	out := []clause{mk("status", "open", false), mk("status", "closed", false), mk("sort", "id", false), mk("sort", "edit-asc", false)}
	// create metadata whose keys must be quoted, and quoted qualifiers
	out = append(out, mkMeta("tracker url", "https://example.org/1", false), mkMeta("tracker url", "https://example.org/2", false),
		mkMeta("tracker url", "absent", false), mkMeta("origin:kind", "mirror", false), mkMeta("origin:kind", "two words", false),
		quoteQualifier(mk("status", "closed", false)), quoteQualifier(mk("label", "prod", false)), quoteQualifier(mk("author", "descartes", false)),
		quoteQualifier(mkMeta("origin:kind", "mirror", false)), quoteQualifier(mk("sort", "creation-asc", false)))
	for _, kind := range []string{"author", "actor", "participant", "title"} {
		for _, w := range caseWords {
			for _, v := range caseVariants(w) {
				out = append(out, mk(kind, v, false))
			}
		}
	}
	return out
}

func safeQuery(c *cache.RepoCache, q *query.Query) (ids []entity.Id, err error, panicked any) {
	defer func() { panicked = recover() }()
	ids, err = c.Bugs().Query(q)
	return
}

// evalCtx is what a query is evaluated against.
type evalCtx struct {
	p          *population
	stage      string
	withSearch bool
	bugs       []refBug
	index      map[string]int // bug id -> position in bugs
	masks      []uint32       // per catalogue clause: which bugs satisfy it
}

func newEvalCtx(p *population, stage string, withSearch bool, cat []clause) (*evalCtx, error) {
	names := map[string]string{}
	for n, id := range p.Bugs {
		names[string(id)] = n
	}
	bugs, err := readReference(p.repo, names)
	if err != nil {
		return nil, fmt.Errorf("reference read: %w", err)
	}
	if len(bugs) == 0 || len(bugs) > 30 {
		return nil, fmt.Errorf("unexpected population size %d", len(bugs))
	}
	ctx := &evalCtx{p: p, stage: stage, withSearch: withSearch, bugs: bugs, index: map[string]int{}}
	for i, b := range bugs {
		ctx.index[b.Id] = i
	}
	for _, c := range cat {
		var m uint32
		if c.Kind != "sort" {
			if why := distinguishing(bugs, c); why != "" {
				return nil, fmt.Errorf("clause %s would decide something the statement leaves open: %s", c.Text, why)
			}
			for i := range bugs {
				if bugs[i].satisfies(c) {
					m |= 1 << i
				}
			}
		}
		ctx.masks = append(ctx.masks, m)
	}
	return ctx, nil
}

// expected computes the bounds of the result set from the statement: any-of within status,
// author, actor, participant and metadata; all-of for labels, titles, no:label and across kinds.
// One search term: the bugs containing it. Several search terms: the statement does not say
// whether all or any must occur, so every set between the two is accepted.
func (ctx *evalCtx) expected(cat []clause, seq []int) (lowerB, upperB uint32) {
	all := uint32(1)<<len(ctx.bugs) - 1
	anyOf := map[string]uint32{}
	seen := map[string]bool{}
	must := all
	searchAnd, searchOr, nSearch := all, uint32(0), 0
	for _, k := range seq {
		c := cat[k]
		switch c.Kind {
		case "status", "author", "actor", "participant", "metadata":
			anyOf[c.Kind] |= ctx.masks[k]
			seen[c.Kind] = true
		case "label", "title", "nolabel":
			must &= ctx.masks[k]
		case "search":
			nSearch++
			searchAnd &= ctx.masks[k]
			searchOr |= ctx.masks[k]
		}
	}
	for kind := range seen {
		must &= anyOf[kind]
	}
	if nSearch == 0 {
		return must, must
	}
	return must & searchAnd, must & searchOr
}

func kindsOf(cat []clause, seq []int, only func(kind string) bool) string {
	set := map[string]bool{}
	for _, k := range seq {
		if only == nil || only(cat[k].Kind) {
			set[cat[k].Kind] = true
		}
	}
	var l []string
	for k := range set {
		l = append(l, k)
	}
	sort.Strings(l)
	return strings.Join(l, "+")
}

// evalKinds names the filtering clause kinds of a query for the violation signature; a search
// term that more than ten bugs of the population contain is named apart (bleve's default result
// page holds ten hits).
func (ctx *evalCtx) evalKinds(cat []clause, seq []int) string {
	k := kindsOf(cat, seq, func(kind string) bool { return kind != "sort" })
	for _, ci := range seq {
		if cat[ci].Kind == "search" && bits.OnesCount32(ctx.masks[ci]) > 10 {
			return strings.Replace(k, "search", "search:more-than-ten-hits", 1)
		}
	}
	return k
}

func (ctx *evalCtx) names(mask uint32) []string {
	var out []string
	for i := range ctx.bugs {
		if mask&(1<<i) != 0 {
			n := ctx.bugs[i].Name
			if n == "" {
				n = ctx.bugs[i].Id[:7]
			}
			out = append(out, n)
		}
	}
	return out
}

type verdict struct {
	Oracle, What, Kinds, Detail string
	Class                       string // outcome class when there is no violation
	Parsed, Evaluated           bool
	ResultKey                   string // (expected set, sort) for counting distinct non-trivial queries
}

// checkSequence runs one structured query: render, parse, compare with its denotation (part b),
// and when ctx != nil evaluate it on the cache and compare with the reference (part c).
func checkSequence(cat []clause, seq []int, ctx *evalCtx) verdict {
	cs := make([]clause, len(seq))
	for i, k := range seq {
		cs[i] = cat[k]
	}
	s := renderQuery(cs)
	want, wantErr := denote(cs)
	q, err, pan := safeParse(s)
	v := verdict{Parsed: true}
	switch {
	case pan != nil:
		return verdict{Oracle: "never-panic", What: "parse-panic", Detail: fmt.Sprintf("query.Parse(%q) panicked: %v", s, pan)}
	case wantErr && err == nil:
		return verdict{Oracle: "round-trip", What: "two-sorts-accepted", Detail: fmt.Sprintf("query.Parse(%q) succeeded although the query has more than one sort", s)}
	case wantErr:
		v.Class = "two sorts rejected"
		return v
	case err != nil:
		return verdict{Oracle: "round-trip", What: "well-formed-rejected", Kinds: kindsOf(cat, seq, nil), Detail: fmt.Sprintf("query.Parse(%q) failed: %v", s, err)}
	}
	if ok, diff := sameQuery(q, want); !ok {
		return verdict{Oracle: "round-trip", What: "wrong-denotation", Kinds: kindsOf(cat, seq, nil), Detail: fmt.Sprintf("query.Parse(%q): %s", s, diff)}
	}
	v.Class = "parsed as denoted"
	if ctx == nil {
		return v
	}
	hasSearch := len(want.Search) > 0
	if hasSearch && !ctx.withSearch {
		v.Class = "parsed as denoted; search not evaluated at this stage"
		return v
	}
	ids, err, pan := safeQuery(ctx.p.cache, q)
	v.Evaluated = true
	where := fmt.Sprintf("population %q, %s, query %q", ctx.p.Spec.Name, ctx.stage, s)
	if pan != nil {
		return verdict{Oracle: "evaluation", What: "panic", Kinds: ctx.evalKinds(cat, seq), Detail: fmt.Sprintf("%s: Query panicked: %v", where, pan)}
	}
	if err != nil {
		return verdict{Oracle: "evaluation", What: "error", Kinds: ctx.evalKinds(cat, seq), Detail: fmt.Sprintf("%s: Query failed: %v", where, err)}
	}
	var got uint32
	for _, id := range ids {
		i, ok := ctx.index[string(id)]
		if !ok {
			return verdict{Oracle: "evaluation", What: "unknown-id", Kinds: ctx.evalKinds(cat, seq), Detail: fmt.Sprintf("%s: result contains %s which is no bug of the repository", where, id)}
		}
		if got&(1<<i) != 0 {
			return verdict{Oracle: "evaluation", What: "listed-twice", Kinds: ctx.evalKinds(cat, seq), Detail: fmt.Sprintf("%s: %s is listed twice", where, ctx.names(1 << i)[0])}
		}
		got |= 1 << i
	}
	lo, hi := ctx.expected(cat, seq)
	if got&^hi != 0 {
		return verdict{Oracle: "evaluation", What: "returns-non-matching", Kinds: ctx.evalKinds(cat, seq),
			Detail: fmt.Sprintf("%s: returned %v; satisfying bugs are %v; %v must not be there", where, ctx.names(got), ctx.names(hi), ctx.names(got&^hi))}
	}
	if lo&^got != 0 {
		return verdict{Oracle: "evaluation", What: "misses-matching", Kinds: ctx.evalKinds(cat, seq),
			Detail: fmt.Sprintf("%s: returned %v; satisfying bugs are %v; %v missing", where, ctx.names(got), ctx.names(lo), ctx.names(lo&^got))}
	}
	sk := sortKeyOf(cs)
	for i := 0; i+1 < len(ids); i++ {
		a, b := &ctx.bugs[ctx.index[string(ids[i])]], &ctx.bugs[ctx.index[string(ids[i+1])]]
		c := cmpBugs(a, b, sk.by)
		if (sk.asc && c > 0) || (!sk.asc && c < 0) {
			dir := "descending"
			if sk.asc {
				dir = "ascending"
			}
			return verdict{Oracle: "evaluation", What: "not-sorted", Kinds: sk.by + "-" + dir,
				Detail: fmt.Sprintf("%s: %s (id %s, creation %d/%d, edit %d/%d) is listed before %s (id %s, creation %d/%d, edit %d/%d); requested order: %s %s [logical time/unix time]",
					where, ctx.names(1 << ctx.index[a.Id])[0], a.Id[:7], a.CreateL, a.CreateU, a.EditL, a.EditU,
					ctx.names(1 << ctx.index[b.Id])[0], b.Id[:7], b.CreateL, b.CreateU, b.EditL, b.EditU, sk.by, dir)}
		}
	}
	v.Class = fmt.Sprintf("evaluated: %d of %d bugs", len(ids), len(ctx.bugs))
	v.ResultKey = fmt.Sprintf("%x/%x/%s/%v", lo, hi, sk.by, sk.asc)
	return v
}

// runSequences enumerates all sequences of 1..maxClauses clauses of cat.
func runSequences(col *collector, part string, cat []clause, maxClauses int, ctx *evalCtx) partResult {
	n := len(cat)
	total := sequenceCount(n, maxClauses)
	r := partResult{Outcomes: map[string]int{}, Inputs: total}
	const chunk = 1 << 11
	jobs := (total + chunk - 1) / chunk
	var mu sync.Mutex
	resultKeys := map[string]bool{}
	evaluated := 0
	par.ForEach(jobs, 0, func(j int) {
		local := map[string]int{}
		keys := map[string]bool{}
		calls, evals := 0, 0
		var buf []int
		if pastDeadline() {
			return
		}
		for i := j * chunk; i < (j+1)*chunk && i < total; i++ {
			seq := nthSequence(i, n, maxClauses, buf)
			v := checkSequence(cat, seq, ctx)
			calls++
			if v.Evaluated {
				evals++
			}
			if v.What != "" {
				sig := v.What
				if v.Kinds != "" {
					sig += "[" + v.Kinds + "]"
				}
				texts := make([]string, len(seq))
				for k, ci := range seq {
					texts[k] = cat[ci].Text
				}
				rp := map[string]any{"part": part, "clauses": texts}
				if ctx != nil {
					rp["population"] = ctx.p.Spec.Name
					rp["stage"] = ctx.stage
				}
				col.add(finding{v.Oracle, sig, v.Detail, rp})
				local["VIOLATION "+v.What]++
			} else {
				local[v.Class]++
				if v.ResultKey != "" {
					keys[v.ResultKey] = true
				}
			}
		}
		mu.Lock()
		merge(r.Outcomes, local, "")
		r.Calls += calls
		evaluated += evals
		for k := range keys {
			resultKeys[k] = true
		}
		mu.Unlock()
	})
	r.Extra = map[string]any{"clauses": n, "max_clauses": maxClauses, "evaluated_on_cache": evaluated, "distinct_expected_results": len(resultKeys)}
	return r
}

// malformedAmongClauses: every malformed piece at every position among 0..2 well-formed,
// quote-free clauses must make the parser return an error.
func malformedAmongClauses(col *collector, cat []clause) partResult {
	var plain []clause
	for _, c := range cat {
		if !strings.Contains(c.Text, `"`) {
			plain = append(plain, c)
		}
	}
	r := partResult{Outcomes: map[string]int{}}
	n := len(plain)
	for _, m := range malformedPieces {
		total := 1 + sequenceCount(n, 2)
		for i := 0; i < total; i++ {
			var seq []int
			if i > 0 {
				seq = nthSequence(i-1, n, 2, nil)
			}
			for pos := 0; pos <= len(seq); pos++ {
				if strings.Contains(m.Text, `"`) && pos != len(seq) {
					continue // an open quote is only unambiguous as the last piece
				}
				var parts []string
				for k, ci := range seq {
					if k == pos {
						parts = append(parts, m.Text)
					}
					parts = append(parts, plain[ci].Text)
				}
				if pos == len(seq) {
					parts = append(parts, m.Text)
				}
				s := strings.Join(parts, " ")
				r.Inputs++
				r.Calls++
				_, err, pan := safeParse(s)
				switch {
				case pan != nil:
					col.add(finding{"never-panic", "parse-panic", fmt.Sprintf("query.Parse(%q) panicked: %v", s, pan), map[string]any{"part": "malformed", "input": s}})
					r.Outcomes["VIOLATION parse-panic"]++
				case err == nil:
					col.add(finding{"round-trip", "malformed-accepted[" + m.Why + "]", fmt.Sprintf("query.Parse(%q) succeeded; %s must be rejected", s, m.Why), map[string]any{"part": "malformed", "input": s, "why": m.Why}})
					r.Outcomes["VIOLATION malformed-accepted"]++
				default:
					r.Outcomes["malformed rejected"]++
				}
			}
		}
	}
	r.Extra = map[string]any{"malformed_pieces": len(malformedPieces), "plain_clauses": n}
	return r
}

// orderKeys lists the sort keys of the population and counts the pairs that exercise the
// tie-break (equal Lamport time, different unix stamp) and the pairs whose order is free.
func (ctx *evalCtx) orderKeys() (keys []string, tieBroken, fullyTied int) {
	for i := range ctx.bugs {
		b := &ctx.bugs[i]
		keys = append(keys, fmt.Sprintf("%s id=%s creation=%d/%d edit=%d/%d", ctx.names(1 << i)[0], b.Id[:7], b.CreateL, b.CreateU, b.EditL, b.EditU))
		for j := i + 1; j < len(ctx.bugs); j++ {
			c := &ctx.bugs[j]
			for _, k := range [][4]int64{{int64(b.CreateL), int64(c.CreateL), b.CreateU, c.CreateU}, {int64(b.EditL), int64(c.EditL), b.EditU, c.EditU}} {
				if k[0] == k[1] && k[2] != k[3] {
					tieBroken++
				}
				if k[0] == k[1] && k[2] == k[3] {
					fullyTied++
				}
			}
		}
	}
	return
}

// describe renders the population compactly for the evidence file.
func (ctx *evalCtx) describe() []string {
	var out []string
	ns := func(l []refIdent) string {
		var n []string
		for _, i := range l {
			n = append(n, i.Name)
		}
		return strings.Join(n, ", ")
	}
	for i := range ctx.bugs {
		b := &ctx.bugs[i]
		st := "closed"
		if b.Open {
			st = "open"
		}
		out = append(out, fmt.Sprintf("%s %s %s title=%q labels=%q author=%q(login %q) actors=[%s] participants=[%s] create-metadata=%v texts=%q",
			ctx.names(1 << i)[0], b.Id[:7], st, b.Title, b.Labels, b.Author.Name, b.Author.Login, ns(b.Actors), ns(b.Participants), b.CreateMeta, b.Texts))
	}
	return out
}

// ---- repeated evaluation of one parsed Query object ----

// phraseClauses are quoted multi-word search terms (phrases that occur in the "filters"
// population, and one that occurs nowhere).
func phraseClauses() []clause {
	return []clause{mk("search", "zebra sighting", false), mk("search", "second zebra", false), mk("search", "two words", false)}
}

func copyQuery(q *query.Query) *query.Query {
	c := *q
	c.Search = append(query.Search(nil), q.Search...)
	c.Status = append([]common.Status(nil), q.Status...)
	c.Author = append([]string(nil), q.Author...)
	c.Metadata = append([]query.StringPair(nil), q.Metadata...)
	c.Actor = append([]string(nil), q.Actor...)
	c.Participant = append([]string(nil), q.Participant...)
	c.Label = append([]string(nil), q.Label...)
	c.Title = append([]string(nil), q.Title...)
	return &c
}

// checkRepeat parses a query once and evaluates THE SAME Query object three times: evaluating
// must not change the query it is given, and must give the same answer every time (the result
// of a phrase search itself is not compared with the reference, only with itself).
func checkRepeat(cs []clause, ctx *evalCtx) (findings []verdict, evals int) {
	s := renderQuery(cs)
	q, err, pan := safeParse(s)
	if pan != nil || err != nil || q == nil {
		return nil, 0 // the round trip part reports that
	}
	before := copyQuery(q)
	where := fmt.Sprintf("population %q, %s, query %q", ctx.p.Spec.Name, ctx.stage, s)
	render := func(ids []entity.Id, err error, pan any) string {
		if pan != nil {
			return fmt.Sprintf("panic: %v", pan)
		}
		if err != nil {
			return "error: " + err.Error()
		}
		var l []string
		for _, id := range ids {
			if i, ok := ctx.index[string(id)]; ok {
				l = append(l, ctx.names(1 << i)[0])
			} else {
				l = append(l, string(id))
			}
		}
		return fmt.Sprintf("%v", l)
	}
	var first string
	modified, differs := false, false
	for n := 1; n <= 3; n++ {
		ids, err, pan := safeQuery(ctx.p.cache, q)
		evals++
		got := render(ids, err, pan)
		if n == 1 {
			first = got
		} else if got != first && !differs {
			differs = true
			findings = append(findings, verdict{Oracle: "repeat-evaluation", What: "result-differs-on-re-evaluation",
				Detail: fmt.Sprintf("%s: evaluation 1 of the parsed Query object gave %s, evaluation %d of the same object gave %s", where, first, n, got)})
		}
		if ok, diff := sameQuery(q, before); !ok && !modified {
			modified = true
			findings = append(findings, verdict{Oracle: "repeat-evaluation", What: "query-object-modified",
				Detail: fmt.Sprintf("%s: after evaluation %d the caller's Query object is no longer what was parsed: %s (now / as parsed)", where, n, diff)})
		}
	}
	return findings, evals
}

// runRepeat: every phrase alone, and before / after every clause of the stage's catalogue.
func runRepeat(col *collector, cat []clause, ctx *evalCtx) partResult {
	r := partResult{Outcomes: map[string]int{}}
	var queries [][]clause
	for _, ph := range phraseClauses() {
		queries = append(queries, []clause{ph})
		for _, c := range cat {
			queries = append(queries, []clause{ph, c}, []clause{c, ph})
		}
	}
	for _, cs := range queries {
		fs, evals := checkRepeat(cs, ctx)
		r.Inputs++
		r.Calls += evals
		if len(fs) == 0 {
			r.Outcomes["same answer three times, query untouched"]++
		}
		texts := make([]string, len(cs))
		for i, c := range cs {
			texts[i] = c.Text
		}
		for _, v := range fs {
			col.add(finding{v.Oracle, v.What, v.Detail, map[string]any{"part": "eval-repeat", "population": ctx.p.Spec.Name, "stage": ctx.stage, "clauses": texts}})
			r.Outcomes["VIOLATION "+v.What]++
		}
	}
	r.Extra = map[string]any{"phrases": len(phraseClauses()), "evaluations_per_query": 3}
	r.Samples = []any{map[string]any{"part": "eval-repeat", "query": renderQuery(queries[1]), "evaluations_of_the_same_object": 3}}
	return r
}
