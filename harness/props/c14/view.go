package c14

import (
	"fmt"
	"sort"
	"strings"

	"github.com/MichaelMure/git-bug/cache"
	"github.com/MichaelMure/git-bug/entity"
	"github.com/MichaelMure/git-bug/query"

	"verifharness/world"
)

// Catalogue of queries used for the frame (other entities keep their hits) and for "the removed
// entity is not found by query or search". Words come from the titles and messages of setup.
var Catalogue = []string{
	"",
	"status:open",
	"status:closed",
	"title:target",
	"title:other",
	"label:lT",
	"label:lO",
	"no:label",
	`author:"user a"`,
	`author:victim`,
	"zulu",
	"yankee",
	"tango",
	"whiskey",
	"victor",
	"uniform",
	"target",
	"other",
}

// View: observable -> value, keys "<class>|<instance>".
type View map[string]string

func guard(v View, key string, f func() string) {
	defer func() {
		if r := recover(); r != nil {
			v[key] = fmt.Sprintf("PANIC: %v", r)
		}
	}()
	v[key] = f()
}

func errClass(err error) string {
	switch {
	case err == nil:
		return ""
	case entity.IsErrNotFound(err):
		return "not-found"
	case entity.IsErrMultipleMatch(err):
		return "multiple-match"
	}
	return "error: " + err.Error()
}

func idList(ids []entity.Id, without entity.Id) string {
	var s []string
	for _, id := range ids {
		if id != without {
			s = append(s, string(id))
		}
	}
	sort.Strings(s)
	return strings.Join(s, ",")
}

func mapStr(m map[string]string) string {
	keys := make([]string, 0, len(m))
	for k := range m {
		keys = append(keys, k)
	}
	sort.Strings(keys)
	var sb strings.Builder
	for _, k := range keys {
		fmt.Fprintf(&sb, "%q=%q;", k, m[k])
	}
	return sb.String()
}

// FrameView renders what the cache serves about everything except the entity `without`:
// listings and query results with that id filtered out, per-entity observables of all others.
func FrameView(c *cache.RepoCache, without entity.Id) View {
	v := View{}
	bugIds := c.Bugs().AllIds()
	sort.Slice(bugIds, func(i, j int) bool { return bugIds[i] < bugIds[j] })
	v["bugs-allids|"] = idList(bugIds, without)
	for _, id := range bugIds {
		id := id
		if id == without {
			continue
		}
		p := "|" + string(id)
		ex, err := c.Bugs().ResolveExcerpt(id)
		if err != nil {
			v["bug-excerpt"+p] = errClass(err)
		} else {
			v["bug-excerpt"+p] = fmt.Sprintf("%d %d %d %d %s %s %q %q %d %v %v %s", ex.CreateLamportTime, ex.EditLamportTime, ex.CreateUnixTime,
				ex.EditUnixTime, ex.AuthorId, ex.Status, ex.Labels, ex.Title, ex.LenComments, ex.Actors, ex.Participants, mapStr(ex.CreateMetadata))
		}
		guard(v, "bug-resolve"+p, func() string {
			b, err := c.Bugs().Resolve(id)
			if err != nil {
				return errClass(err)
			}
			snap := b.Snapshot()
			var ops []string
			for _, op := range snap.Operations {
				ops = append(ops, string(op.Id()))
			}
			return strings.Join(ops, ",") + "\n" + world.RenderSnapshot(snap)
		})
	}
	for _, qs := range Catalogue {
		qs := qs
		q, err := query.Parse(qs)
		if err != nil {
			v["bug-query|"+qs] = "parse error: " + err.Error()
			continue
		}
		class := "bug-query|"
		if len(q.Search) > 0 {
			class = "bug-search|"
		}
		guard(v, class+qs, func() string {
			ids, err := c.Bugs().Query(q)
			if err != nil {
				return "error: " + err.Error()
			}
			return idList(ids, without)
		})
	}
	idIds := c.Identities().AllIds()
	sort.Slice(idIds, func(i, j int) bool { return idIds[i] < idIds[j] })
	v["identities-allids|"] = idList(idIds, without)
	for _, id := range idIds {
		id := id
		if id == without {
			continue
		}
		p := "|" + string(id)
		ex, err := c.Identities().ResolveExcerpt(id)
		if err != nil {
			v["identity-excerpt"+p] = errClass(err)
		} else {
			v["identity-excerpt"+p] = fmt.Sprintf("%q %q %s", ex.Name, ex.Login, mapStr(ex.ImmutableMetadata))
		}
		guard(v, "identity-resolve"+p, func() string {
			i, err := c.Identities().Resolve(id)
			if err != nil {
				return errClass(err)
			}
			return fmt.Sprintf("%q %q %q %q keys=%d %s", i.Name(), i.Login(), i.Email(), i.AvatarUrl(), len(i.Keys()), mapStr(i.ImmutableMetadata()))
		})
	}
	return v
}

func (v View) Digest() string {
	keys := make([]string, 0, len(v))
	for k := range v {
		keys = append(keys, k)
	}
	sort.Strings(keys)
	var sb strings.Builder
	for _, k := range keys {
		fmt.Fprintf(&sb, "%s=%q\n", k, v[k])
	}
	return sb.String()
}

// diffViews returns the first differing observable (sorted) and a description.
func diffViews(before, after View) (string, string) {
	keys := map[string]bool{}
	for k := range before {
		keys[k] = true
	}
	for k := range after {
		keys[k] = true
	}
	var ks []string
	for k := range keys {
		ks = append(ks, k)
	}
	sort.Strings(ks)
	for _, k := range ks {
		b, okb := before[k]
		a, oka := after[k]
		if okb != oka || a != b {
			return k, fmt.Sprintf("before %q (present=%v), after %q (present=%v)", b, okb, a, oka)
		}
	}
	return "", ""
}

func class(key string) string {
	if i := strings.IndexByte(key, '|'); i >= 0 {
		return key[:i]
	}
	return key
}
