package c14

import (
	"fmt"
	"io/fs"
	"os"
	"path/filepath"
	"sort"
	"strings"

	"github.com/MichaelMure/git-bug/cache"
	"github.com/MichaelMure/git-bug/entities/bug"
	"github.com/MichaelMure/git-bug/entities/identity"
	"github.com/MichaelMure/git-bug/entity"
	"github.com/MichaelMure/git-bug/query"
	"github.com/MichaelMure/git-bug/repository"
	"github.com/MichaelMure/git-bug/verifshim/vctl"

	"verifharness/world"
	"verifharness/xstate"
)

// snapshot is everything a removal must leave alone (or remove).
type snapshot struct {
	refs     map[string]string // every ref of the repository -> hash
	config   string            // .git/config, bytes
	clocks   string
	selected string // the bug / identity chosen with `select`
	frame    View   // what the cache serves about everything but the target
	full     View   // what the cache serves, target included
}

func (m *model) snap() snapshot {
	s := snapshot{refs: m.allRefs()}
	cfg, _ := os.ReadFile(filepath.Join(m.dir, "A", ".git", "config"))
	s.config = string(cfg)
	s.clocks = strings.Join(world.ClockValues(filepath.Join(m.dir, "A", ".git")), ",")
	s.selected = m.selection()
	s.frame = FrameView(m.c, m.target)
	s.full = FrameView(m.c, "")
	return s
}

func (m *model) isTargetRef(r string) bool {
	return strings.HasSuffix(r, "/"+m.ns()+"/"+string(m.target))
}

const rebuildNS = "verif-rebuild"

// referenceView is FrameView of a cache rebuilt from the git data (second repository handle with
// a fresh local-storage directory, deleted afterwards).
func (m *model) referenceView(without entity.Id) (View, error) {
	path := filepath.Join(m.dir, "A")
	nsDir := filepath.Join(path, ".git", rebuildNS)
	_ = os.RemoveAll(nsDir)
	defer os.RemoveAll(nsDir)
	repo, err := repository.OpenGoGitRepo(path, rebuildNS, loaders)
	if err != nil {
		return nil, err
	}
	c, events := cache.NewRepoCache(repo)
	for ev := range events {
		if ev.Err != nil {
			for range events {
			}
			return nil, ev.Err
		}
	}
	v := FrameView(c, without)
	return v, c.Close()
}

// changed lists the observables that differ between before and after. When the route closed and
// reopened the cache, a value that moved to what a rebuilt cache serves is a repair of an index
// that was already stale before the removal (a pull does not index what it merges, finding F4 of
// property C11; the reload notices the count mismatch and rebuilds), not an effect of the removal.
func (m *model) changed(before, after View, reloaded bool, without entity.Id) (key, detail string, repaired int, err error) {
	var ref View
	keys := map[string]bool{}
	for k := range before {
		keys[k] = true
	}
	for k := range after {
		keys[k] = true
	}
	var ks []string
	for k := range keys {
		ks = append(ks, k)
	}
	sort.Strings(ks)
	for _, k := range ks {
		b, okb := before[k]
		a, oka := after[k]
		if okb == oka && a == b {
			continue
		}
		if reloaded {
			if ref == nil {
				if ref, err = m.referenceView(without); err != nil {
					return "", "", 0, err
				}
			}
			if r, ok := ref[k]; ok == oka && r == a {
				repaired++
				continue
			}
		}
		if key == "" {
			key, detail = k, fmt.Sprintf("before %q (present=%v), after %q (present=%v)", b, okb, a, oka)
		}
	}
	return
}

// remove executes one removal route and evaluates the transition oracle.
func (m *model) remove(route string) (string, []xstate.Violation, error) {
	var viol []xstate.Violation
	add := func(sig, format string, a ...any) {
		viol = append(viol, xstate.Violation{Oracle: "c14.remove", Sig: sig, Detail: fmt.Sprintf("[%s %s, %d remotes, %d others, after %v] ", m.p.Kind, route, m.p.Remotes, m.p.Others, m.applied[:len(m.applied)-1]) + fmt.Sprintf(format, a...)})
	}
	local, all := m.targetRefs()
	// the remotes that are configured, as stock git sees them (own handle on the config file):
	// tracking refs of the entity are due for removal under each of them and nowhere else
	configured, err := m.configuredRemotes()
	if err != nil {
		return "", nil, err
	}
	due := func(r string) bool {
		if !m.isTargetRef(r) {
			return false
		}
		if strings.HasPrefix(r, "refs/remotes/") {
			// refs/remotes/<remote>/<namespace>/<id>, where the remote's name may hold slashes
			name := strings.TrimSuffix(strings.TrimPrefix(r, "refs/remotes/"), "/"+m.ns()+"/"+string(m.target))
			return configured[name]
		}
		return true
	}
	{
		var d []string
		for _, r := range all {
			if due(r) {
				d = append(d, r)
			}
		}
		all = d
	}
	before := m.snap()
	second := len(all) == 0
	var rmErr error
	outcome := ""
	switch route {
	case "rm-cache":
		if m.p.Kind == "bug" {
			rmErr = m.c.Bugs().Remove(string(m.target))
		} else {
			rmErr = m.c.Identities().Remove(string(m.target))
		}
	case "rm-api":
		// the entity API knows nothing of a cache: no cache is open while it runs
		if err := m.closeCache(); err != nil {
			return "", nil, err
		}
		if m.p.Kind == "bug" {
			rmErr = bug.Remove(m.w.Repos["A"], m.target)
		} else {
			rmErr = identity.Remove(m.w.Repos["A"], m.target)
		}
		if err := m.openCache(true); err != nil {
			return "", nil, err
		}
	case "rm-cli":
		if err := m.closeCache(); err != nil {
			return "", nil, err
		}
		exit, out, err := m.runCLI(filepath.Join(m.dir, "A"), "bug", "rm", string(m.target)[:12])
		if err != nil {
			return "", nil, err
		}
		if strings.Contains(out, "panic:") || strings.Contains(out, "goroutine ") {
			sig := "cli-panics/first-removal"
			if second {
				sig = "second-removal-panics/rm-cli"
			}
			add(sig, "`git-bug bug rm` panicked: %s", out)
		}
		if exit != 0 {
			rmErr = fmt.Errorf("exit %d: %s", exit, strings.TrimSpace(out))
		}
		if err := m.openCache(true); err != nil {
			return "", nil, err
		}
	}
	after := m.snap()
	m.routes = append(m.routes, route)

	if second {
		// repeating the removal does no further harm: nothing at all changes (an error is fine)
		outcome = "second:" + short(rmErr)
		for r, h := range before.refs {
			if after.refs[r] != h {
				add("second-removal-changes-refs/"+route, "ref %s changed from %s to %q", r, h, after.refs[r])
				break
			}
		}
		for r := range after.refs {
			if _, ok := before.refs[r]; !ok {
				add("second-removal-changes-refs/"+route, "ref %s appeared", r)
				break
			}
		}
		if after.config != before.config {
			add("second-removal-changes-config/"+route, "config before:\n%s\nafter:\n%s", before.config, after.config)
		}
		if after.clocks != before.clocks {
			add("second-removal-changes-clocks/"+route, "clocks before %s after %s", before.clocks, after.clocks)
		}
		if after.selected != before.selected {
			add("second-removal-changes-selection/"+route, "selection before %q after %q", before.selected, after.selected)
		}
		k, d, repaired, err := m.changed(before.full, after.full, route != "rm-cache", "")
		if err != nil {
			return "", nil, err
		}
		if k != "" {
			add("second-removal-changes-cache:"+class(k)+"/"+route, "observable %s: %s", k, d)
		}
		if repaired > 0 {
			outcome += ",reload-repaired-stale-index"
		}
		return outcome, viol, nil
	}

	// first removal (the entity had at least one ref)
	outcome = "first:" + short(rmErr)
	if !local {
		outcome = "tracking-only:" + short(rmErr)
	}
	survivors := 0
	for r, h := range before.refs {
		ah, still := after.refs[r]
		if due(r) {
			if still {
				survivors++
				if rmErr == nil {
					kind := "tracking"
					if strings.HasPrefix(r, "refs/"+m.ns()+"/") {
						kind = "local"
					}
					add("ref-survives:"+kind+"/"+route, "removal succeeded but %s still exists", r)
				}
			}
			continue
		}
		if !still {
			add("other-ref-removed/"+route, "ref %s (not of the removed entity) disappeared", r)
		} else if ah != h {
			add("other-ref-changed/"+route, "ref %s moved from %s to %s", r, h, ah)
		}
	}
	for r := range after.refs {
		if _, ok := before.refs[r]; !ok {
			add("ref-appeared/"+route, "ref %s appeared during the removal", r)
		}
	}
	if rmErr != nil {
		if survivors == len(all) {
			// refused as a whole: nothing may have changed
			outcome = "refused:" + short(rmErr)
			if after.config != before.config || after.clocks != before.clocks {
				add("refused-removal-changes-state/"+route, "removal failed (%v) but config or clocks changed", rmErr)
			}
			k, d, _, err := m.changed(before.full, after.full, route != "rm-cache", "")
			if err != nil {
				return "", nil, err
			}
			if k != "" {
				add("refused-removal-changes-cache:"+class(k)+"/"+route, "removal failed (%v) but observable %s: %s", rmErr, k, d)
			}
			return outcome, viol, nil
		}
		add("partial-removal/"+route, "removal reported %v but %d of %d refs of the entity are gone", rmErr, len(all)-survivors, len(all))
	}
	if after.config != before.config {
		add("config-changed/"+route, "config before:\n%s\nafter:\n%s", before.config, after.config)
	}
	if after.clocks != before.clocks {
		add("clocks-changed/"+route, "clocks before %s after %s", before.clocks, after.clocks)
	}
	if after.selected != before.selected {
		add("selection-changed/"+route, "selection before %q after %q", before.selected, after.selected)
	}
	k, d, repaired, err := m.changed(before.frame, after.frame, route != "rm-cache", m.target)
	if err != nil {
		return "", nil, err
	}
	if k != "" {
		add("frame-changed:"+class(k)+"/"+route, "what the cache serves about the other entities changed, observable %s: %s", k, d)
	}
	if repaired > 0 {
		outcome += ",reload-repaired-stale-index"
	}
	m.removed = true
	m.told = route != "rm-api"
	return outcome, viol, nil
}

// ---- state oracle: gone for good ---------------------------------------------------------------

func (m *model) Check() (tags []string, viol []xstate.Violation, err error) {
	if m.hung != "" {
		return []string{"hung"}, nil, nil
	}
	last := "init"
	if n := len(m.applied); n > 0 {
		last, _ = parse(m.applied[n-1])
	}
	if m.removed {
		var gv []xstate.Violation
		hung, panicked := m.guarded(func() { gv, tags = m.gone(last) })
		if hung || panicked != "" {
			m.hung = "gone"
			viol = append(viol, xstate.Violation{Oracle: "c14.gone", Sig: "lookup-hangs-or-panics/after-" + last, Detail: fmt.Sprintf("after %v: hung=%v %s", m.applied, hung, panicked)})
			return tags, viol, nil
		}
		viol = append(viol, gv...)
	} else {
		tags = append(tags, "present")
	}
	if m.p.Wipe {
		wv, wt, err := m.wipe()
		if err != nil {
			return nil, nil, err
		}
		viol = append(viol, wv...)
		tags = append(tags, wt...)
	}
	return tags, viol, nil
}

func (m *model) gone(last string) (viol []xstate.Violation, tags []string) {
	add := func(sig, format string, a ...any) {
		viol = append(viol, xstate.Violation{Oracle: "c14.gone", Sig: sig + "/after-" + last,
			Detail: fmt.Sprintf("[%s, %d remotes, %d others, after %v] ", m.p.Kind, m.p.Remotes, m.p.Others, m.applied) + fmt.Sprintf(format, a...)})
	}
	vctl.SetActor("check/A")
	repo := m.w.Repos["A"]
	T := m.target
	_, all := m.targetRefs()
	if len(all) > 0 {
		add("ref-back", "refs of the removed entity exist again: %v", all)
	}
	if m.p.Kind == "bug" {
		if _, err := bug.Read(repo, T); err == nil {
			add("readable-from-git", "bug.Read still returns the removed bug")
		}
	} else {
		if _, err := identity.ReadLocal(repo, T); err == nil {
			add("readable-from-git", "identity.ReadLocal still returns the removed identity")
		}
	}
	if !m.told {
		// removed behind the cache's back (entity API) and no rebuild yet: the statement does not
		// say how the cache learns of it; accepted
		return viol, []string{"gone-git-level-only"}
	}
	tags = []string{"gone-checked"}
	c := m.c
	inList := func(ids []entity.Id) bool {
		for _, id := range ids {
			if id == T {
				return true
			}
		}
		return false
	}
	multi := func(err error) bool {
		if mm, ok := err.(*entity.ErrMultipleMatch); ok {
			return inList(mm.Matching)
		}
		return false
	}
	if m.p.Kind == "bug" {
		if inList(c.Bugs().AllIds()) {
			add("found-by-listing", "AllIds still lists the removed bug")
		}
		if _, err := c.Bugs().ResolveExcerpt(T); err == nil {
			add("found-by-id", "ResolveExcerpt(id) still returns the removed bug")
		}
		if _, err := c.Bugs().Resolve(T); err == nil {
			add("found-by-id", "Resolve(id) still returns the removed bug")
		}
		for n := 1; n <= len(T); n++ {
			p := string(T)[:n]
			if b, err := c.Bugs().ResolvePrefix(p); (err == nil && b.Id() == T) || multi(err) {
				add("found-by-prefix", "ResolvePrefix(%q) still leads to the removed bug (%v)", p, err)
				break
			}
			if e, err := c.Bugs().ResolveExcerptPrefix(p); (err == nil && e.Id() == T) || multi(err) {
				add("found-by-prefix", "ResolveExcerptPrefix(%q) still leads to the removed bug (%v)", p, err)
				break
			}
		}
		for _, qs := range Catalogue {
			q, err := query.Parse(qs)
			if err != nil {
				continue
			}
			how := "query"
			if len(q.Search) > 0 {
				how = "search"
			}
			func() {
				defer func() {
					if r := recover(); r != nil {
						add(how+"-panics", "query %q panics after the removal: %v", qs, r)
					}
				}()
				ids, err := c.Bugs().Query(q)
				if err == nil && inList(ids) {
					add("found-by-"+how, "query %q still returns the removed bug", qs)
				}
			}()
		}
		if b, err := c.Bugs().ResolveBugCreateMetadata("origin", "target-1"); (err == nil && b.Id() == T) || multi(err) {
			add("found-by-metadata", "ResolveBugCreateMetadata still leads to the removed bug")
		}
	} else {
		if inList(c.Identities().AllIds()) {
			add("found-by-listing", "AllIds still lists the removed identity")
		}
		if _, err := c.Identities().ResolveExcerpt(T); err == nil {
			add("found-by-id", "ResolveExcerpt(id) still returns the removed identity")
		}
		if _, err := c.Identities().Resolve(T); err == nil {
			add("found-by-id", "Resolve(id) still returns the removed identity")
		}
		for n := 1; n <= len(T); n++ {
			p := string(T)[:n]
			if i, err := c.Identities().ResolvePrefix(p); (err == nil && i.Id() == T) || multi(err) {
				add("found-by-prefix", "ResolvePrefix(%q) still leads to the removed identity (%v)", p, err)
				break
			}
			if e, err := c.Identities().ResolveExcerptPrefix(p); (err == nil && e.Id() == T) || multi(err) {
				add("found-by-prefix", "ResolveExcerptPrefix(%q) still leads to the removed identity (%v)", p, err)
				break
			}
		}
		// author:<name> resolves identities through their excerpts
		if e, err := c.Identities().ResolveExcerptMatcher(func(e2 *cache.IdentityExcerpt) bool { return strings.Contains(e2.Name, "victim") }); err == nil && e.Id() == T {
			add("found-by-query", "an identity excerpt named 'victim' is still served")
		}
	}
	return viol, tags
}

// ---- wipe --------------------------------------------------------------------------------------

// wipe runs `git-bug wipe` on copies of A (as is, and with a bridge configured) and inspects what
// is left. The live world is not needed afterwards.
func (m *model) wipe() (viol []xstate.Violation, tags []string, err error) {
	if err := m.closeCache(); err != nil {
		return nil, nil, err
	}
	src := filepath.Join(m.dir, "A")
	for _, variant := range []string{"no-bridge", "bridge"} {
		dst := filepath.Join(m.dir, "W")
		_ = os.RemoveAll(dst)
		if err := world.CopyTree(src, dst); err != nil {
			return nil, nil, err
		}
		if variant == "bridge" {
			repo, err := repository.OpenGoGitRepo(dst, world.Namespace, nil)
			if err != nil {
				return nil, nil, err
			}
			for k, v := range map[string]string{"target": "github", "owner": "someone", "project": "something", "default-login": "someone"} {
				if err := repo.LocalConfig().StoreString("git-bug.bridge.tracker."+k, v); err != nil {
					return nil, nil, err
				}
			}
			_ = repo.Close()
		}
		exit, out, err := m.runCLI(dst, "wipe")
		if err != nil {
			return nil, nil, err
		}
		aborted := ""
		if exit != 0 {
			aborted = "/aborted:" + wipeErrClass(out)
			tags = append(tags, "wipe-exit-nonzero")
		} else {
			tags = append(tags, "wipe-exit-0")
		}
		add := func(sig, format string, a ...any) {
			who := "identity selected"
			if m.p.NoUser {
				who = "identity never selected"
			}
			viol = append(viol, xstate.Violation{Oracle: "c14.wipe", Sig: sig + aborted,
				Detail: fmt.Sprintf("[%s, %s, %d remotes, after %v] `git-bug wipe` exit %d (%s): ", who, variant, m.p.Remotes, m.applied, exit, strings.TrimSpace(out)) + fmt.Sprintf(format, a...)})
		}
		if strings.Contains(out, "panic:") {
			add("wipe-panics", "the command panicked")
		}
		// local storage
		var files []string
		_ = filepath.WalkDir(filepath.Join(dst, ".git", world.Namespace), func(p string, d fs.DirEntry, err error) error {
			if err == nil && !d.IsDir() {
				rel, _ := filepath.Rel(filepath.Join(dst, ".git"), p)
				files = append(files, rel)
			}
			return nil
		})
		if len(files) > 0 {
			sort.Strings(files)
			if len(files) > 6 {
				files = append(files[:6], "...")
			}
			add("storage-survives", ".git/%s still holds files: %v", world.Namespace, files)
		}
		repo, err := repository.OpenGoGitRepo(dst, world.Namespace, nil)
		if err != nil {
			return nil, nil, err
		}
		refs, _ := repo.ListRefs("refs/")
		var localLeft, trackingLeft []string
		for _, r := range refs {
			switch {
			case strings.HasPrefix(r, "refs/bugs/"), strings.HasPrefix(r, "refs/identities/"):
				localLeft = append(localLeft, r)
			case strings.HasPrefix(r, "refs/remotes/") && (strings.Contains(r, "/bugs/") || strings.Contains(r, "/identities/")):
				// refs/remotes/<remote>/{bugs,identities}/<id>; the remote's name may hold slashes
				trackingLeft = append(trackingLeft, r)
			}
		}
		if len(localLeft) > 0 {
			add("local-refs-survive", "%v", localLeft)
		}
		if len(trackingLeft) > 0 {
			add("tracking-refs-survive", "%v", trackingLeft)
		}
		cfg, _ := repo.LocalConfig().ReadAll("git-bug")
		if len(cfg) > 0 {
			var ks []string
			for k := range cfg {
				ks = append(ks, k)
			}
			sort.Strings(ks)
			add("config-keys-survive", "%v", ks)
		}
		_ = repo.Close()
		_ = os.RemoveAll(dst)
	}
	return viol, tags, nil
}

func wipeErrClass(out string) string {
	for _, k := range []string{"invalid key prefix", "already locked", "lock"} {
		if strings.Contains(out, k) {
			return strings.ReplaceAll(k, " ", "-")
		}
	}
	lines := strings.Split(strings.TrimSpace(out), "\n")
	s := lines[len(lines)-1]
	if len(s) > 40 {
		s = s[:40]
	}
	return s
}
