// Package c14 checks property C14: removing an entity removes all of it, only it, and is
// repeatable; wiping leaves nothing behind. Engine X model: one repository A behind a real
// cache.RepoCache, 0..3 configured bare remotes, a second writer B that only acts during setup.
package c14

import (
	"bytes"
	"context"
	"encoding/json"
	"fmt"
	"io/fs"
	"os"
	"os/exec"
	"path/filepath"
	"runtime"
	"runtime/debug"
	"sort"
	"strings"
	"time"

	gogit "github.com/go-git/go-git/v5"
	"github.com/go-git/go-git/v5/plumbing"

	"github.com/MichaelMure/git-bug/cache"
	"github.com/MichaelMure/git-bug/entities/bug"
	"github.com/MichaelMure/git-bug/entities/identity"
	"github.com/MichaelMure/git-bug/entity"
	"github.com/MichaelMure/git-bug/repository"
	"github.com/MichaelMure/git-bug/verifshim/vctl"
	"github.com/MichaelMure/git-bug/verifshim/vtime"

	"verifharness/world"
	"verifharness/xstate"
)

// Params is one configuration of the space.
type Params struct {
	Seed    uint64 `json:"seed"`
	Kind    string `json:"kind"`    // "bug" or "identity": what is removed
	Remotes int    `json:"remotes"` // configured remotes 0..3
	Others  int    `json:"others"`  // other entities of the same kind 0..2 (the first shares an id prefix with the target)
	NoUser  bool   `json:"nouser"`  // A never selected an identity (wipe runs only)
	Wipe    bool   `json:"wipe"`    // run `git-bug wipe` (with and without a bridge configured) on a copy of every state
	Bin     string `json:"bin"`     // the real git-bug binary
	// LateRemote: a second remote R2 (a bare copy of R1, which holds everything A has) exists from
	// the start but is configured on A only by the environment action `addremote`, from outside
	// the session's repository handle (stock `git remote add`); small alphabet
	LateRemote bool `json:"late_remote"`
	// PackRefs: the environment may run stock `git pack-refs --all` in A (what git gc does), at
	// most twice per path (once in wipe runs)
	PackRefs bool `json:"pack_refs"`
	// Names "odd": four remotes named as stock git allows: one name a prefix of another (up,
	// upstream), one with a slash (team/upstream), one with dot and dash (my.remote-2); Remotes is
	// ignored; fetch is left out of the alphabet (pull covers it)
	Names   string `json:"names"`
	HangSec int    `json:"hang_s"`
}

func (p Params) String() string { b, _ := json.Marshal(p); return string(b) }

var loaders = []repository.ClockLoader{bug.ClockLoader}

type model struct {
	p       Params
	dir     string
	w       *world.World
	c       *cache.RepoCache
	remotes []string

	target  entity.Id
	others  []entity.Id
	nEdit   int
	removed bool // the target was removed and nothing could legitimately bring it back since
	told    bool // the cache was told (cache / CLI route) or rebuilt since the removal
	applied []string
	hung    string
	routes  []string // routes used so far

	packs       int  // times the refs were packed on this path
	added       bool // R2 was configured (late-remote runs)
	seenRemotes int  // number of configured remotes when the current repository handle was first asked for them by a removal; -1: not yet
}

// New is the xstate factory.
func New(params string) (xstate.Model, error) {
	runtime.GOMAXPROCS(1) // as in props/c11: executions must be a deterministic function of the action sequence
	var p Params
	if err := json.Unmarshal([]byte(params), &p); err != nil {
		return nil, err
	}
	if p.Kind == "" {
		p.Kind = "bug"
	}
	if p.HangSec == 0 {
		p.HangSec = 60
	}
	m := &model{p: p, seenRemotes: -1}
	for i := 1; i <= p.Remotes; i++ {
		m.remotes = append(m.remotes, fmt.Sprintf("R%d", i))
	}
	if p.Names == "odd" {
		m.remotes = []string{"up", "upstream", "team/upstream", "my.remote-2"}
		m.p.Remotes = len(m.remotes)
	}
	return m, nil
}

func (m *model) ns() string {
	if m.p.Kind == "identity" {
		return "identities"
	}
	return "bugs"
}

type initMeta struct {
	Users  map[string]entity.Id
	Target entity.Id
	Others []entity.Id
}

func (m *model) replicas() []string {
	if m.p.Remotes > 0 {
		return []string{"A", "B"}
	}
	return []string{"A"}
}

func (m *model) Init(dir string) error {
	m.dir = dir
	vctl.Activate(m.p.Seed, 0)
	meta, ok, err := world.RestoreTemplate(dir)
	if err != nil {
		return err
	}
	if !ok {
		if err := m.build(dir); err != nil {
			return fmt.Errorf("build: %w", err)
		}
		b, _ := json.Marshal(initMeta{Users: m.w.Users, Target: m.target, Others: m.others})
		m.w.Close()
		if err := world.SaveTemplate(dir, b); err != nil {
			return err
		}
		meta = b
	}
	var im initMeta
	if err := json.Unmarshal(meta, &im); err != nil {
		return err
	}
	openRemotes := m.remotes
	if m.p.LateRemote {
		openRemotes = append(append([]string{}, m.remotes...), lateRemote) // in the state key although not configured yet
	}
	w, err := world.Open(dir, m.replicas(), openRemotes, loaders)
	if err != nil {
		return err
	}
	w.Users = im.Users
	m.w, m.target, m.others = w, im.Target, im.Others
	vctl.SetActor("open/A")
	return m.openCache(false)
}

func (m *model) openCache(freshHandle bool) error {
	if freshHandle {
		repo, err := repository.OpenGoGitRepo(filepath.Join(m.dir, "A"), world.Namespace, loaders)
		if err != nil {
			return err
		}
		m.w.Repos["A"] = repo
	}
	c, events := cache.NewRepoCache(m.w.Repos["A"])
	for ev := range events {
		if ev.Err != nil {
			for range events {
			}
			return fmt.Errorf("open cache: %w", ev.Err)
		}
	}
	m.c = c
	return nil
}

func (m *model) closeCache() error {
	if m.c == nil {
		return nil
	}
	err := m.c.Close()
	m.c = nil
	return err
}

func sharePrefix(a, b entity.Id, n int) bool { return string(a)[:n] == string(b)[:n] }

// build creates the configuration. Everything is written through the entity API (ids can be
// inspected before committing, which the mined prefix-sharing entity needs), then A's cache is
// built once and closed.
func (m *model) build(dir string) error {
	w, err := world.Create(dir, m.replicas(), m.remotes, false)
	if err != nil {
		return err
	}
	m.w = w
	repoA := w.Repos["A"]
	first := ""
	if len(m.remotes) > 0 {
		first = m.remotes[0]
	}
	if m.p.NoUser {
		// only B has an identity; it publishes an identity and two bugs on every remote
		if len(m.remotes) == 0 {
			return m.finishBuild()
		}
		vctl.SetActor("setup/B")
		repoB := w.Repos["B"]
		ub, err := identity.NewIdentity(repoB, "user B", "B@example.org")
		if err != nil {
			return err
		}
		if err := ub.Commit(repoB); err != nil {
			return err
		}
		if err := identity.SetUserIdentity(repoB, ub); err != nil {
			return err
		}
		w.Users["B"] = ub.Id()
		for i, title := range []string{"remote only uniform", "remote second sierra"} {
			b, _, err := bug.Create(ub, vtime.Now().Unix(), title, fmt.Sprintf("body %d", i), nil, nil)
			if err != nil {
				return err
			}
			if err := b.Commit(repoB); err != nil {
				return err
			}
		}
		for _, r := range m.remotes {
			if _, err := identity.Push(repoB, r); err != nil {
				return err
			}
			if _, err := bug.Push(repoB, r); err != nil {
				return err
			}
		}
		return m.finishBuild()
	}
	if err := w.SetupUsers(first); err != nil {
		return err
	}
	vctl.SetActor("setup/A")
	ua, err := w.User("A")
	if err != nil {
		return err
	}
	now := func() int64 { return vtime.Now().Unix() }
	newBug := func(title, msg, label string, meta map[string]string, want func(entity.Id) bool) (entity.Id, error) {
		for n := 0; n < 100000; n++ {
			t := title
			if want != nil {
				t = fmt.Sprintf("%s %d", title, n)
			}
			b, _, err := bug.Create(ua, now(), t, msg, nil, meta)
			if err != nil {
				return "", err
			}
			if want != nil && !want(b.Id()) {
				continue
			}
			if label != "" {
				b.Append(bug.NewLabelChangeOperation(ua, now(), []bug.Label{bug.Label(label)}, nil))
			}
			return b.Id(), b.Commit(repoA)
		}
		return "", fmt.Errorf("mining failed")
	}
	newIdentity := func(name, email string, want func(entity.Id) bool) (entity.Id, error) {
		for n := 0; n < 100000; n++ {
			nm := name
			if want != nil {
				nm = fmt.Sprintf("%s %d", name, n)
			}
			i, err := identity.NewIdentity(repoA, nm, email)
			if err != nil {
				return "", err
			}
			if want != nil && !want(i.Id()) {
				continue
			}
			return i.Id(), i.Commit(repoA)
		}
		return "", fmt.Errorf("mining failed")
	}
	if m.p.Kind == "bug" {
		if m.target, err = newBug("target zulu", "target body yankee", "lT", map[string]string{"origin": "target-1"}, nil); err != nil {
			return err
		}
		if m.p.Others >= 1 {
			id, err := newBug("other one whiskey", "other body", "lO", map[string]string{"origin": "other-1"}, func(id entity.Id) bool { return sharePrefix(id, m.target, 2) })
			if err != nil {
				return err
			}
			m.others = append(m.others, id)
		}
		if m.p.Others >= 2 {
			id, err := newBug("other two victor", "other body two", "", nil, nil)
			if err != nil {
				return err
			}
			m.others = append(m.others, id)
		}
	} else {
		if m.target, err = newIdentity("victim xray", "victim@example.org", nil); err != nil {
			return err
		}
		if m.p.Others >= 1 {
			id, err := newIdentity("other one whiskey", "o1@example.org", func(id entity.Id) bool { return sharePrefix(id, m.target, 2) })
			if err != nil {
				return err
			}
			m.others = append(m.others, id)
		}
		if m.p.Others >= 2 {
			id, err := newIdentity("other two victor", "o2@example.org", nil)
			if err != nil {
				return err
			}
			m.others = append(m.others, id)
		}
		// the bug namespace is part of the frame
		if _, err := newBug("other bug whiskey", "bug body", "lO", nil, nil); err != nil {
			return err
		}
	}
	if len(m.remotes) > 0 {
		// something that exists on R1 only: fetched-but-never-merged states come from it
		vctl.SetActor("setup/B")
		repoB := w.Repos["B"]
		ub, err := w.User("B")
		if err != nil {
			return err
		}
		b, _, err := bug.Create(ub, now(), "remote only uniform", "remote body", nil, nil)
		if err != nil {
			return err
		}
		if err := b.Commit(repoB); err != nil {
			return err
		}
		if _, err := bug.Push(repoB, first); err != nil {
			return err
		}
	}
	if m.p.LateRemote {
		// R1 gets everything A has; R2 is a bare copy of it that A does not know of yet
		if len(m.remotes) == 0 {
			return fmt.Errorf("late_remote needs a first remote")
		}
		vctl.SetActor("setup/A")
		if _, err := identity.Push(repoA, first); err != nil {
			return err
		}
		if _, err := bug.Push(repoA, first); err != nil {
			return err
		}
		if err := world.CopyTree(filepath.Join(dir, first), filepath.Join(dir, lateRemote)); err != nil {
			return err
		}
	}
	return m.finishBuild()
}

const lateRemote = "R2"

// configuredRemotes reads the remotes of A from the git config through a handle of its own
// (never through the session's repository handle).
func (m *model) configuredRemotes() (map[string]bool, error) {
	r, err := gogit.PlainOpen(filepath.Join(m.dir, "A"))
	if err != nil {
		return nil, err
	}
	cfg, err := r.Config()
	if err != nil {
		return nil, err
	}
	out := map[string]bool{}
	for name := range cfg.Remotes {
		out[name] = true
	}
	return out, nil
}

func (m *model) finishBuild() error {
	vctl.SetActor("setup/A")
	if err := m.openCache(false); err != nil {
		return err
	}
	if err := m.closeCache(); err != nil {
		return err
	}
	// with other bugs around, one of them is the selected bug (`git-bug bug select`): commands
	// given an id that matches nothing fall back on the selection
	if m.p.Kind == "bug" && !m.p.NoUser && len(m.others) > 0 {
		exit, out, err := m.runCLI(filepath.Join(m.dir, "A"), "bug", "select", string(m.others[0])[:12])
		if err != nil {
			return err
		}
		if exit != 0 {
			return fmt.Errorf("git-bug bug select: exit %d: %s", exit, out)
		}
	}
	return nil
}

// selection is the content of the select files of A ("" when nothing is selected).
func (m *model) selection() string {
	var parts []string
	for _, ns := range []string{"bugs", "identities"} {
		b, err := os.ReadFile(filepath.Join(m.dir, "A", ".git", world.Namespace, "select", ns))
		if err == nil {
			parts = append(parts, ns+"="+string(b))
		}
	}
	return strings.Join(parts, ";")
}

func (m *model) Close() {
	if m.hung == "" {
		_ = m.closeCache()
	}
	if m.w != nil {
		m.w.Close()
		m.w = nil
	}
	vctl.Deactivate()
}

// ---- actions -----------------------------------------------------------------------------------

// allRefs lists every ref of A (loose and packed) with its value through a handle of its own, as
// stock git would see them.
func (m *model) allRefs() map[string]string {
	out := map[string]string{}
	r, err := gogit.PlainOpen(filepath.Join(m.dir, "A"))
	if err != nil {
		return out
	}
	it, err := r.References()
	if err != nil {
		return out
	}
	_ = it.ForEach(func(ref *plumbing.Reference) error {
		if ref.Type() == plumbing.HashReference && strings.HasPrefix(ref.Name().String(), "refs/") {
			out[ref.Name().String()] = ref.Hash().String()
		}
		return nil
	})
	return out
}

// refStorage renders which git-bug refs are loose files and what packed-refs holds: hidden state
// of the repository that a removal has to cope with (part of the state key).
func (m *model) refStorage() string {
	gitDir := filepath.Join(m.dir, "A", ".git")
	var parts []string
	for _, top := range []string{"refs/bugs", "refs/identities", "refs/remotes"} {
		_ = filepath.WalkDir(filepath.Join(gitDir, top), func(p string, d fs.DirEntry, err error) error {
			if err == nil && !d.IsDir() {
				rel, _ := filepath.Rel(gitDir, p)
				b, _ := os.ReadFile(p)
				parts = append(parts, "loose "+rel+" "+strings.TrimSpace(string(b)))
			}
			return nil
		})
	}
	if b, err := os.ReadFile(filepath.Join(gitDir, "packed-refs")); err == nil {
		for _, l := range strings.Split(string(b), "\n") {
			if l != "" && !strings.HasPrefix(l, "#") {
				parts = append(parts, "packed "+l)
			}
		}
	}
	sort.Strings(parts)
	return strings.Join(parts, "\n")
}

func (m *model) targetRefs() (local bool, all []string) {
	var refs []string
	for r := range m.allRefs() {
		refs = append(refs, r)
	}
	suffix := "/" + m.ns() + "/" + string(m.target)
	for _, r := range refs {
		if strings.HasSuffix(r, suffix) {
			all = append(all, r)
			if r == "refs"+suffix {
				local = true
			}
		}
	}
	sort.Strings(all)
	return
}

func (m *model) Actions() []string {
	if m.hung != "" {
		return nil
	}
	var out []string
	if m.p.NoUser {
		for _, r := range m.remotes {
			out = append(out, "fetch("+r+")")
		}
		return out
	}
	if m.p.LateRemote {
		// one session handle kept open (rm-cache, never a route that reopens), the environment
		// configuring R2 behind its back, traffic with R2, reopen as the contrast
		out = append(out, "rm-cache")
		if !m.added {
			out = append(out, "addremote")
		} else {
			out = append(out, "push("+lateRemote+")", "fetch("+lateRemote+")", "merge("+lateRemote+")")
		}
		return append(out, "reopen")
	}
	local, _ := m.targetRefs()
	rms := []string{"rm-api", "rm-cache"}
	if m.p.Kind == "bug" {
		rms = append(rms, "rm-cli")
	}
	if m.p.Wipe {
		// the wipe runs need the reachable states, not the removal routes
		if local {
			out = append(out, "edit")
		}
		for _, r := range m.remotes {
			if m.p.Names == "odd" {
				out = append(out, "push("+r+")", "pull("+r+")")
				continue
			}
			out = append(out, "push("+r+")", "fetch("+r+")", "pull("+r+")")
		}
		if local {
			out = append(out, "rm-cache")
		}
		if m.p.PackRefs && m.packs < 1 {
			out = append(out, "packrefs")
		}
		return out
	}
	if m.p.PackRefs && m.packs < 2 {
		out = append(out, "packrefs")
	}
	if !m.removed {
		out = append(out, "edit")
		for _, r := range m.remotes {
			if m.p.Names == "odd" {
				out = append(out, "push("+r+")", "pull("+r+")")
				continue
			}
			out = append(out, "push("+r+")", "fetch("+r+")", "pull("+r+")")
		}
		return append(out, rms...)
	}
	out = append(out, rms...)
	out = append(out, "rebuild", "reopen")
	for _, r := range m.remotes {
		out = append(out, "merge("+r+")")
	}
	if m.p.Names != "odd" {
		// a new fetch after the removal: the entity is then held by remote-tracking refs only (the
		// "fetched, never merged" subset), from where it may legitimately come back through a merge,
		// and from where a removal by id has tracking refs to delete and no local ref to find
		for _, r := range m.remotes {
			out = append(out, "fetch("+r+")")
		}
	}
	return out
}

func parse(a string) (string, string) {
	i := strings.IndexByte(a, '(')
	if i < 0 {
		return a, ""
	}
	return a[:i], strings.TrimSuffix(a[i+1:], ")")
}

func (m *model) guarded(f func()) (hung bool, panicked string) {
	done := make(chan string, 1)
	go func() {
		defer func() {
			if r := recover(); r != nil {
				done <- fmt.Sprintf("%v\n%s", r, debug.Stack())
				return
			}
			done <- ""
		}()
		f()
	}()
	select {
	case p := <-done:
		return false, p
	case <-time.After(time.Duration(m.p.HangSec) * time.Second):
		return true, ""
	}
}

func (m *model) Apply(a string) (outcome string, viol []xstate.Violation, err error) {
	k, arg := parse(a)
	m.applied = append(m.applied, a)
	vctl.SetActor("A")
	hung, panicked := m.guarded(func() { outcome, viol, err = m.apply(k, arg) })
	if hung || panicked != "" {
		m.hung = a
		what := fmt.Sprintf("did not return within %d s", m.p.HangSec)
		sig := "hang/" + k
		if panicked != "" {
			what, sig = "panicked: "+panicked, "panic/"+k
			if strings.HasPrefix(k, "rm-") && m.removed {
				sig = "second-removal-panics/" + k
			}
		}
		return "hang-or-panic", []xstate.Violation{{Oracle: "c14.remove", Sig: sig, Detail: a + " " + what}}, nil
	}
	return
}

func short(err error) string {
	if err == nil {
		return "ok"
	}
	s := err.Error()
	if entity.IsErrNotFound(err) || strings.Contains(s, "not found") {
		return "err:not-found"
	}
	if len(s) > 40 {
		s = s[:40]
	}
	return "err:" + s
}

// runCLI runs the real binary in A's work tree (the cache must be closed: the binary takes the lock).
func (m *model) runCLI(dir string, args ...string) (exit int, out string, err error) {
	if m.p.Bin == "" {
		return 0, "", fmt.Errorf("no git-bug binary configured")
	}
	ctx, cancel := context.WithTimeout(context.Background(), 120*time.Second)
	defer cancel()
	cmd := exec.CommandContext(ctx, m.p.Bin, args...)
	cmd.Dir = dir
	var buf bytes.Buffer
	cmd.Stdout, cmd.Stderr = &buf, &buf
	cmd.Env = append(os.Environ(), "GOMAXPROCS=1")
	runErr := cmd.Run()
	out = buf.String()
	if runErr == nil {
		return 0, out, nil
	}
	if ee, ok := runErr.(*exec.ExitError); ok && ctx.Err() == nil {
		return ee.ExitCode(), out, nil
	}
	return -1, out, fmt.Errorf("running %v: %v (%s)", args, runErr, out)
}

func (m *model) apply(k, arg string) (string, []xstate.Violation, error) {
	repo := m.w.Repos["A"]
	switch k {
	case "edit":
		m.nEdit++
		if m.p.Kind == "bug" {
			b, err := m.c.Bugs().Resolve(m.target)
			if err != nil {
				return "resolve-" + short(err), nil, nil
			}
			if _, _, err := b.AddComment(fmt.Sprintf("more tango %d", m.nEdit)); err != nil {
				return "edit-" + short(err), nil, nil
			}
			return short(b.Commit()), nil, nil
		}
		i, err := m.c.Identities().Resolve(m.target)
		if err != nil {
			return "resolve-" + short(err), nil, nil
		}
		if err := i.Mutate(repo, func(mu *identity.Mutator) { mu.Name = fmt.Sprintf("victim xray v%d", m.nEdit) }); err != nil {
			return "edit-" + short(err), nil, nil
		}
		return short(i.Commit()), nil, nil
	case "push":
		if _, err := m.c.Push(arg); err != nil {
			return "rejected", nil, nil
		}
		return "ok", nil, nil
	case "fetch":
		if _, err := m.c.Fetch(arg); err != nil {
			if strings.Contains(err.Error(), "remote repository is empty") {
				return "empty-remote", nil, nil
			}
			return "", nil, fmt.Errorf("fetch: %w", err)
		}
		m.removed = false
		return "ok", nil, nil
	case "pull", "merge":
		if k == "pull" {
			if _, err := m.c.Fetch(arg); err != nil {
				if strings.Contains(err.Error(), "remote repository is empty") {
					return "empty-remote", nil, nil
				}
				return "", nil, fmt.Errorf("fetch: %w", err)
			}
			m.removed = false
		}
		counts := map[string]int{}
		for r := range m.c.MergeAll(arg) {
			if r.Err != nil {
				counts["error"]++
				continue
			}
			counts[map[entity.MergeStatus]string{entity.MergeStatusNew: "new", entity.MergeStatusInvalid: "invalid",
				entity.MergeStatusUpdated: "updated", entity.MergeStatusNothing: "nothing", entity.MergeStatusError: "error"}[r.Status]]++
		}
		var parts []string
		for _, s := range []string{"new", "updated", "nothing", "invalid", "error"} {
			if counts[s] > 0 {
				parts = append(parts, fmt.Sprintf("%s=%d", s, counts[s]))
			}
		}
		if len(parts) == 0 {
			return "nothing-to-merge", nil, nil
		}
		return strings.Join(parts, ","), nil, nil
	case "packrefs":
		// the environment's git gc: every ref moves into packed-refs, the loose files go
		cmd := exec.Command("git", "pack-refs", "--all")
		cmd.Dir = filepath.Join(m.dir, "A")
		if out, err := cmd.CombinedOutput(); err != nil {
			return "", nil, fmt.Errorf("git pack-refs: %v: %s", err, out)
		}
		m.packs++
		return "ok", nil, nil
	case "addremote":
		// the user's own `git remote add`: the session's repository handle is not involved
		cmd := exec.Command("git", "remote", "add", lateRemote, world.Scheme+"://"+filepath.Join(m.dir, lateRemote))
		cmd.Dir = filepath.Join(m.dir, "A")
		if out, err := cmd.CombinedOutput(); err != nil {
			return "", nil, fmt.Errorf("git remote add: %v: %s", err, out)
		}
		m.added = true
		return "ok", nil, nil
	case "reopen":
		if err := m.closeCache(); err != nil {
			return "", nil, err
		}
		m.seenRemotes = -1
		return "ok", nil, m.openCache(true)
	case "rebuild":
		if err := m.closeCache(); err != nil {
			return "", nil, err
		}
		for _, d := range []string{"cache", "indexes"} {
			if err := os.RemoveAll(filepath.Join(m.dir, "A", ".git", world.Namespace, d)); err != nil {
				return "", nil, err
			}
		}
		if m.removed {
			m.told = true
		}
		return "ok", nil, m.openCache(true)
	case "rm-api", "rm-cache", "rm-cli":
		if local, _ := m.targetRefs(); k == "rm-cache" && local && m.seenRemotes < 0 {
			// hidden state of the handle that survives this action: what it may remember of the remotes
			if cr, err := m.configuredRemotes(); err == nil {
				m.seenRemotes = len(cr)
			}
		}
		return m.remove(k)
	}
	return "", nil, fmt.Errorf("unknown action %s", k)
}

// ---- state key ---------------------------------------------------------------------------------

func (m *model) Key() (string, error) {
	if m.hung != "" {
		return "hung:" + strings.Join(m.applied, ";"), nil
	}
	var v View
	hung, panicked := m.guarded(func() { v = FrameView(m.c, "") })
	if hung || panicked != "" {
		m.hung = "view"
		return "hung:" + strings.Join(m.applied, ";"), nil
	}
	cfg, _ := os.ReadFile(filepath.Join(m.dir, "A", ".git", "config"))
	cfg = bytes.ReplaceAll(cfg, []byte(m.dir), []byte("$WORLD")) // remote URLs embed the scratch directory
	return m.w.Key("view\n"+v.Digest(), fmt.Sprint("removed ", m.removed, " told ", m.told, " edits ", m.nEdit, " selected ", m.selection(), " r2 ", m.added, " handle-saw-remotes ", m.seenRemotes, " packs ", m.packs), "ref storage\n"+m.refStorage(), "config\n"+string(cfg))
}
