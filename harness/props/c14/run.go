package c14

import (
	"encoding/json"
	"flag"
	"fmt"
	"os"
	"os/exec"
	"path/filepath"
	"sort"
	"sync"
	"time"

	"verifharness/evidence"
	"verifharness/xstate"
)

type run struct {
	name   string
	params Params
	depth  int
}

func plan(tier string, seed uint64, bin string) []run {
	var runs []run
	quick := tier != "thorough"
	for _, kind := range []string{"bug", "identity"} {
		for r := 0; r <= 3; r++ {
			for k := 0; k <= 2; k++ {
				depth := 5
				if r >= 2 {
					depth = 4
				}
				if !quick {
					depth++
				}
				runs = append(runs, run{fmt.Sprintf("remove %s, %d remotes, %d others", kind, r, k),
					Params{Seed: seed, Kind: kind, Remotes: r, Others: k, Bin: bin}, depth})
			}
		}
	}
	for _, kind := range []string{"bug", "identity"} {
		depth := 3
		if !quick {
			depth = 4
		}
		runs = append(runs, run{fmt.Sprintf("remove %s, remotes named up, upstream, team/upstream, my.remote-2", kind),
			Params{Seed: seed, Kind: kind, Others: 1, Names: "odd", Bin: bin}, depth})
	}
	{
		depth := 2
		if !quick {
			depth = 3
		}
		runs = append(runs, run{"wipe, identity selected, remotes named up, upstream, team/upstream, my.remote-2",
			Params{Seed: seed, Kind: "bug", Others: 1, Wipe: true, Names: "odd", Bin: bin}, depth})
	}
	for _, kind := range []string{"bug", "identity"} {
		depth := 6
		if !quick {
			depth = 8
		}
		runs = append(runs, run{fmt.Sprintf("remove %s, remote R2 added outside the session", kind),
			Params{Seed: seed, Kind: kind, Remotes: 1, Others: 1, LateRemote: true, Bin: bin}, depth})
	}
	for _, kind := range []string{"bug", "identity"} {
		depth := 4
		if !quick {
			depth = 6
		}
		runs = append(runs, run{fmt.Sprintf("remove %s, 1 remotes, 1 others, refs packed by the environment", kind),
			Params{Seed: seed, Kind: kind, Remotes: 1, Others: 1, PackRefs: true, Bin: bin}, depth})
	}
	{
		depth := 3
		if !quick {
			depth = 5
		}
		runs = append(runs, run{"wipe, identity selected, 1 remotes, refs packed by the environment",
			Params{Seed: seed, Kind: "bug", Remotes: 1, Others: 1, Wipe: true, PackRefs: true, Bin: bin}, depth})
	}
	for r := 0; r <= 3; r++ {
		depth := 4
		if r == 3 {
			depth = 3
		}
		if !quick {
			depth++
		}
		runs = append(runs, run{fmt.Sprintf("wipe, identity selected, %d remotes", r),
			Params{Seed: seed, Kind: "bug", Remotes: r, Others: 1, Wipe: true, Bin: bin}, depth})
		runs = append(runs, run{fmt.Sprintf("wipe, identity never selected, %d remotes", r),
			Params{Seed: seed, Kind: "bug", Remotes: r, NoUser: true, Wipe: true, Bin: bin}, 4})
	}
	return runs
}

var Assumptions = []string{
	"every transition is an execution of the real entity / cache API or of the real git-bug binary (built from the checked tree) on a real repository on tmpfs",
	"configurations: 0..3 configured remotes (which of them hold the entity follows from the push/fetch/pull history), 0..2 other entities of the same kind, the first mined to share a 2-character id prefix with the removed one",
	"removal through the entity API runs with no cache open (that API knows nothing of caches); what a cache file written before such a removal still shows is accepted until the cache is rebuilt: the statement does not say how the cache learns of it",
	"whether a repeated removal returns an error is not constrained by the statement: both accepted; it must change nothing and must not panic",
	"wipe is run on a copy of every state reached in the wipe runs, with and without a bridge configured in the git config; 'identity never selected' is a repository that only ever fetched",
	"remote URLs use the in-process transport scheme; rm and wipe never contact a remote",
	"late-remote runs: one session handle stays open (cache-route removals only) while the environment configures a second remote with stock `git remote add`; the removal oracle reads the configured remotes through a handle of its own, never through the session's",
	"bounded: depths as listed per run; beyond the completed depth nothing is claimed",
}

// BuildBinary builds the real git-bug binary from $VERIF_REPO into the check's build directory.
func BuildBinary() (string, error) {
	repo := os.Getenv("VERIF_REPO")
	if repo == "" {
		repo = "/repo"
	}
	// next to the harness binary: ./check keeps one build directory per checked tree
	dir := filepath.Join(evidence.Root(), ".build", "C14")
	if exe, err := os.Executable(); err == nil {
		dir = filepath.Dir(exe)
	}
	if err := os.MkdirAll(dir, 0o755); err != nil {
		return "", err
	}
	bin := filepath.Join(dir, "git-bug")
	cmd := exec.Command("go", "build", "-o", bin, ".")
	cmd.Dir = repo
	cmd.Env = os.Environ()
	if out, err := cmd.CombinedOutput(); err != nil {
		return "", fmt.Errorf("go build git-bug: %v\n%s", err, out)
	}
	return bin, nil
}

// Main is the C14 check.
func Main(args []string) {
	fs := flag.NewFlagSet("C14", flag.ExitOnError)
	replay := fs.String("replay", "", "replay file")
	depthOverride := fs.Int("depth", 0, "override the depth of every run")
	only := fs.String("only", "", "execute only runs whose name contains this")
	fs.Parse(args)
	// github.com/99designs/keyring connects to the D-Bus session bus in its package init; without
	// an address godbus autolaunches a dbus-daemon that outlives every worker and CLI process
	if os.Getenv("DBUS_SESSION_BUS_ADDRESS") == "" {
		os.Setenv("DBUS_SESSION_BUS_ADDRESS", "unix:path=/nonexistent")
	}
	bin, err := BuildBinary()
	if err != nil {
		fmt.Fprintln(os.Stderr, "harness error:", err)
		os.Exit(2)
	}
	if *replay != "" {
		os.Exit(Replay(*replay))
	}
	tier := evidence.Tier()
	seed := uint64(evidence.Seed())
	rep := evidence.NewReporter("C14")
	start := time.Now()
	budget := 8 * time.Minute
	if tier == "thorough" {
		budget = 40 * time.Minute
	}
	deadline := start.Add(budget)
	cov := map[string]any{}
	totalStates, totalTrans := 0, 0
	exhaustive := true
	harnessErr := false
	var runInfo []map[string]any
	var samples []any
	outcomes := map[string]int{}
	tags := map[string]int{}
	// the runs are small and breadth-first levels start narrow: several runs side by side
	type done struct {
		r     run
		depth int
		res   xstate.Result
	}
	var todo []run
	for _, r := range plan(tier, seed, bin) {
		if *only == "" || contains(r.name, *only) {
			todo = append(todo, r)
		}
	}
	results := make([]done, len(todo))
	reproduced := map[string]bool{}
	sem := make(chan struct{}, 6)
	var wg sync.WaitGroup
	for i, r := range todo {
		depth := r.depth
		if *depthOverride > 0 {
			depth = *depthOverride
		}
		wg.Add(1)
		go func(i int, r run, depth int) {
			defer wg.Done()
			sem <- struct{}{}
			defer func() { <-sem }()
			cfg := xstate.Config{Property: "C14", Model: "c14w", Params: r.params.String(), MaxDepth: depth,
				Deadline: deadline, CrashIsViolation: true, Log: nil, Workers: 4}
			res := xstate.Run(cfg)
			fmt.Fprintf(os.Stderr, "== C14: %-45s depth %d: states %d transitions %d signatures %d exhaustive %v (%.0fs)\n", r.name, depth, res.States, res.Transitions, len(res.Found), res.Exhaustive, time.Since(start).Seconds())
			results[i] = done{r, depth, res}
		}(i, r, depth)
	}
	wg.Wait()
	for _, d := range results {
		r, depth, res := d.r, d.depth, d.res
		totalStates += res.States
		totalTrans += res.Transitions
		if !res.Exhaustive {
			exhaustive = false
		}
		for k, v := range res.Outcomes {
			outcomes[k] += v
		}
		for k, v := range res.Tags {
			tags[k] += v
		}
		runInfo = append(runInfo, map[string]any{"configuration": r.name, "params": r.params, "max_depth": depth,
			"completed_depth": res.CompletedDepth, "states": res.States, "transitions": res.Transitions,
			"new_states_per_depth": res.PerDepth, "exhaustive_to_depth": res.Exhaustive})
		if len(res.Samples) > 0 && len(samples) < 12 {
			samples = append(samples, map[string]any{"configuration": r.name, "path": res.Samples[len(res.Samples)-1]})
		}
		for _, e := range res.HarnessErrors {
			fmt.Fprintln(os.Stderr, "harness error:", e)
			harnessErr = true
		}
		sort.Slice(res.Found, func(i, j int) bool {
			if len(res.Found[i].Path) != len(res.Found[j].Path) {
				return len(res.Found[i].Path) < len(res.Found[j].Path)
			}
			return res.Found[i].Sig < res.Found[j].Sig
		})
		for _, fd := range res.Found {
			if reproduced[fd.Oracle+"|"+fd.Sig] {
				continue // already written out with a shorter or equal path from an earlier configuration
			}
			reproduced[fd.Oracle+"|"+fd.Sig] = true
			n := xstate.Reproductions("c14w", r.params.String(), fd, 5)
			rep.Report(evidence.Report{Oracle: fd.Oracle, Sig: fd.Sig,
				Detail: fmt.Sprintf("[%s] after %v: %s (reproduced %d/5)", r.name, fd.Path, fd.Detail, n),
				Replay: map[string]any{"model": "c14w", "params": r.params, "path": fd.Path, "reproduced_of_5": n},
				Count:  res.SigCount[fd.Oracle+"|"+fd.Sig]})
		}
	}
	cov["states"] = totalStates
	cov["transitions"] = totalTrans
	cov["traces_validated_against_impl"] = totalTrans
	cov["exhaustive"] = exhaustive
	cov["rule"] = "per configuration (kind, remotes, others): breadth-first over all sequences of edit/push/fetch/pull, the three removal routes and the follow-ups (remove again by each route, rebuild cache, close+reopen, merge without fetch); removal transitions are compared before/after on every ref, the config bytes, the clocks and what the cache serves about every other entity; every state after a removal is probed by id, every prefix, query, search and create metadata; wipe runs execute the real `git-bug wipe` on a copy of every state"
	cov["runs"] = runInfo
	cov["samples"] = samples
	cov["transition_outcomes"] = outcomes
	cov["distinct_outcomes"] = len(outcomes)
	cov["state_tags"] = tags
	ev := evidence.Evidence{PropertyID: "C14", Tier: tier, Seed: int(seed), Level: "model_checking", Coverage: cov,
		Assumptions: Assumptions, WallS: time.Since(start).Seconds(), Violations: rep.Viol, Known: rep.KnownSeen()}
	if err := ev.Write(); err != nil {
		fmt.Fprintln(os.Stderr, "harness error: cannot write evidence:", err)
		os.Exit(2)
	}
	fmt.Printf("C14: runs=%d states=%d transitions=%d exhaustive=%v violations=%d wall=%.1fs\n", len(runInfo), totalStates, totalTrans, exhaustive, rep.Viol, time.Since(start).Seconds())
	if harnessErr && rep.Viol == 0 {
		os.Exit(2)
	}
	rep.Exit()
}

func contains(s, sub string) bool {
	for i := 0; i+len(sub) <= len(s); i++ {
		if s[i:i+len(sub)] == sub {
			return true
		}
	}
	return false
}

// Replay re-executes a replay file; exit status 1 = reproduced.
func Replay(path string) int {
	b, err := os.ReadFile(path)
	if err != nil {
		fmt.Fprintln(os.Stderr, err)
		return 2
	}
	var f struct {
		Oracle string `json:"oracle"`
		Sig    string `json:"sig"`
		Replay struct {
			Model  string          `json:"model"`
			Params json.RawMessage `json:"params"`
			Path   []string        `json:"path"`
		} `json:"replay"`
	}
	if err := json.Unmarshal(b, &f); err != nil {
		fmt.Fprintln(os.Stderr, err)
		return 2
	}
	viol, trace, crashed, err := xstate.ReplayOnce(f.Replay.Model, string(f.Replay.Params), f.Replay.Path)
	if err != nil {
		fmt.Fprintln(os.Stderr, "replay error:", err)
		return 2
	}
	for _, t := range trace {
		fmt.Println("  step:", t)
	}
	if crashed {
		fmt.Println("the process died during the last step")
		if f.Oracle == "crash" {
			return 1
		}
		return 0
	}
	hit := false
	for _, v := range viol {
		fmt.Printf("  violation %s|%s: %s\n", v.Oracle, v.Sig, v.Detail)
		if v.Oracle == f.Oracle && v.Sig == f.Sig {
			hit = true
		}
	}
	if hit {
		fmt.Println("reproduced")
		return 1
	}
	fmt.Println("not reproduced")
	return 0
}
