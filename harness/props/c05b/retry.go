package c05b

// Fault + retry enumeration (C05, "error at a clock-file mutation, retried in the same process"):
//
//	history (fault-free actions of the clock machine)
//	× step (read, readall, merge, edit, edit2, newbug)
//	× fault point p = 1..n of the file operations the real lamport.PersistedClock issues during that
//	  step (TempFile / Write / Close / Rename ... whatever its write path uses: the operations are
//	  counted on a fault-injecting billy filesystem, not assumed)
//	× attempts a ∈ {1, 2}: the step is executed a times with ONE error injected at operation p (the
//	  real code returns its error), then once more without fault on the SAME handle (same in-memory
//	  clocks), then everything is closed and the repository is opened from its files by the real
//	  OpenGoGitRepo with git-bug's clock loader (restart).
//
// A second, coarser family uses the real GoGitRepo handle and a real filesystem fault: the clock
// file is replaced by a non-empty directory, so that every rename over it fails during the
// attempt(s); it is put back with its old content before the retry.
//
// Oracle after the restart: no persisted clock is below its value before the step; every clock
// (file and live) is at least the largest time stored in the local bug refs; a new bug and an edit
// written then carry times above everything stored.

import (
	"encoding/json"
	"errors"
	"fmt"
	"os"
	"path/filepath"
	"sort"
	"strings"
	"sync"

	"github.com/go-git/go-billy/v5"
	"github.com/go-git/go-billy/v5/osfs"

	"github.com/MichaelMure/git-bug/entities/bug"
	"github.com/MichaelMure/git-bug/entities/identity"
	"github.com/MichaelMure/git-bug/entity"
	"github.com/MichaelMure/git-bug/repository"
	"github.com/MichaelMure/git-bug/util/lamport"
	"github.com/MichaelMure/git-bug/verifshim/vctl"
	"github.com/MichaelMure/git-bug/verifshim/vtime"

	"verifharness/subproc"
	"verifharness/world"
	"verifharness/xstate"
)

var errFault = errors.New("injected clock-file error (no space left on device)")

// ---- fault-injecting filesystem ---------------------------------------------------------------

// faultFS counts the mutating file operations issued through it and fails exactly operation
// number failAt (1-based) of the current attempt.
type faultFS struct {
	billy.Filesystem
	mu      sync.Mutex
	n       int
	failAt  int
	classes []string // class of each operation of the current attempt
	hit     string   // class of the operation that was failed
}

func (f *faultFS) arm(p int) {
	f.mu.Lock()
	f.n, f.failAt, f.classes, f.hit = 0, p, nil, ""
	f.mu.Unlock()
}

func (f *faultFS) op(class string) bool {
	f.mu.Lock()
	defer f.mu.Unlock()
	f.n++
	f.classes = append(f.classes, class)
	if f.n == f.failAt {
		f.hit = class
		return true
	}
	return false
}

func writes(flag int) bool {
	return flag&(os.O_WRONLY|os.O_RDWR|os.O_CREATE|os.O_TRUNC|os.O_APPEND) != 0
}

func (f *faultFS) Create(name string) (billy.File, error) {
	return f.OpenFile(name, os.O_RDWR|os.O_CREATE|os.O_TRUNC, 0o666)
}

func (f *faultFS) OpenFile(name string, flag int, perm os.FileMode) (billy.File, error) {
	if !writes(flag) {
		return f.Filesystem.OpenFile(name, flag, perm)
	}
	if f.op("create") {
		return nil, errFault
	}
	file, err := f.Filesystem.OpenFile(name, flag, perm)
	if err != nil {
		return nil, err
	}
	return &faultFile{File: file, fs: f}, nil
}

func (f *faultFS) TempFile(dir, prefix string) (billy.File, error) {
	if f.op("tempfile") {
		return nil, errFault
	}
	file, err := f.Filesystem.TempFile(dir, prefix)
	if err != nil {
		return nil, err
	}
	return &faultFile{File: file, fs: f}, nil
}

func (f *faultFS) Rename(from, to string) error {
	if f.op("rename") {
		return errFault
	}
	return f.Filesystem.Rename(from, to)
}

func (f *faultFS) Remove(name string) error {
	if f.op("remove") {
		return errFault
	}
	return f.Filesystem.Remove(name)
}

type faultFile struct {
	billy.File
	fs *faultFS
}

func (f *faultFile) Write(p []byte) (int, error) {
	if f.fs.op("write") {
		return 0, errFault
	}
	return f.File.Write(p)
}

func (f *faultFile) Close() error {
	if f.fs.op("close") {
		_ = f.File.Close()
		return errFault
	}
	return f.File.Close()
}

// faultClockRepo is a real GoGitRepo whose clocks are real lamport.PersistedClock values on the
// fault-injecting filesystem over the same clock files. Loading and creating mirror
// GoGitRepo.getClock / GetOrCreateClock / AllClocks (its local storage cannot be replaced).
type faultClockRepo struct {
	repository.ClockedRepo
	fs     *faultFS
	gitdir string
	mu     sync.Mutex
	clocks map[string]lamport.Clock
}

func newFaultClockRepo(real repository.ClockedRepo, gitdir string) *faultClockRepo {
	return &faultClockRepo{ClockedRepo: real, gitdir: gitdir, clocks: map[string]lamport.Clock{},
		fs: &faultFS{Filesystem: osfs.New(filepath.Join(gitdir, world.Namespace))}}
}

func (r *faultClockRepo) get(name string, create bool) (lamport.Clock, error) {
	if c, ok := r.clocks[name]; ok {
		return c, nil
	}
	c, err := lamport.LoadPersistedClock(r.fs, filepath.Join("clocks", name))
	if err == lamport.ErrClockNotExist && create {
		c, err = lamport.NewPersistedClock(r.fs, filepath.Join("clocks", name))
	}
	if err != nil {
		if err == lamport.ErrClockNotExist {
			return nil, repository.ErrClockNotExist
		}
		return nil, err
	}
	r.clocks[name] = c
	return c, nil
}

func (r *faultClockRepo) AllClocks() (map[string]lamport.Clock, error) {
	r.mu.Lock()
	defer r.mu.Unlock()
	out := map[string]lamport.Clock{}
	entries, err := os.ReadDir(filepath.Join(r.gitdir, world.Namespace, "clocks"))
	if os.IsNotExist(err) {
		return nil, nil
	}
	if err != nil {
		return nil, err
	}
	for _, e := range entries {
		c, err := r.get(e.Name(), false)
		if err != nil {
			return nil, err
		}
		out[e.Name()] = c
	}
	return out, nil
}

func (r *faultClockRepo) GetOrCreateClock(name string) (lamport.Clock, error) {
	r.mu.Lock()
	defer r.mu.Unlock()
	return r.get(name, true)
}

func (r *faultClockRepo) Increment(name string) (lamport.Time, error) {
	c, err := r.GetOrCreateClock(name)
	if err != nil {
		return 0, err
	}
	return c.Increment()
}

func (r *faultClockRepo) Witness(name string, t lamport.Time) error {
	c, err := r.GetOrCreateClock(name)
	if err != nil {
		return err
	}
	return c.Witness(t)
}

// ---- steps ------------------------------------------------------------------------------------

var retrySteps = []string{"read", "readall", "merge", "edit", "edit2", "newbug"}

// doStep executes one history step on repo and returns the first error the real code reported.
func (m *model) doStep(repo repository.ClockedRepo, step string) error {
	vctl.SetActor("A")
	u, err := identity.ReadLocal(repo, m.userA)
	if err != nil {
		return err
	}
	switch step {
	case "read":
		_, err := bug.Read(repo, m.bug0)
		return err
	case "readall":
		var first error
		for e := range bug.ReadAll(repo) {
			if e.Err != nil && first == nil {
				first = e.Err
			}
		}
		return first
	case "merge":
		var first error
		for r := range bug.MergeAll(repo, resolvers(repo), remoteName, u) {
			if first != nil {
				continue
			}
			if r.Err != nil {
				first = r.Err
			} else if r.Status == entity.MergeStatusInvalid {
				first = fmt.Errorf("invalid: %s", r.Reason)
			}
		}
		return first
	case "edit", "edit2":
		b, err := bug.Read(repo, m.bug0)
		if err != nil {
			return err
		}
		n := len(b.Operations())
		b.Append(bug.NewAddCommentOp(u, vtime.Now().Unix(), fmt.Sprintf("comment %d, written around a fault", n), nil))
		if step == "edit2" {
			o, err := identity.ReadLocal(repo, m.userB)
			if err != nil {
				return err
			}
			b.Append(bug.NewAddCommentOp(o, vtime.Now().Unix(), fmt.Sprintf("comment %d by the other author", n+1), nil))
		}
		return b.Commit(repo)
	case "newbug":
		b, _, err := bug.Create(u, vtime.Now().Unix(), "bug written around a fault", "message", nil, nil)
		if err != nil {
			return err
		}
		return b.Commit(repo)
	}
	return fmt.Errorf("unknown step %s", step)
}

// ---- one case ---------------------------------------------------------------------------------

// RetryCase is one element of the enumeration.
type RetryCase struct {
	Params   Params   `json:"params"`
	History  []string `json:"history"`
	Step     string   `json:"step"`
	Family   string   `json:"family"` // "op" (one failed file operation) or "dir" (clock file replaced by a directory)
	P        int      `json:"p"`      // op: operation number, 0 = probe (count operations); dir: 0 = bugs-edit, 1 = bugs-create
	Attempts int      `json:"attempts"`
}

type RetryResult struct {
	Err       string             `json:"err,omitempty"` // harness failure
	Ops       []string           `json:"ops,omitempty"` // probe: classes of the operations of the fault-free step
	Class     string             `json:"class,omitempty"`
	Reached   bool               `json:"reached"`
	StepErrs  []string           `json:"step_errs,omitempty"`
	RetryErr  string             `json:"retry_err,omitempty"`
	Viol      []xstate.Violation `json:"viol,omitempty"`
	Before    map[string]uint64  `json:"before,omitempty"`
	AfterFile map[string]uint64  `json:"after_file,omitempty"`
	Stored    map[string]uint64  `json:"stored,omitempty"`
}

func attemptsName(a int) string {
	if a <= 1 {
		return "once"
	}
	return fmt.Sprintf("%d-times", a)
}

func runRetryCase(scratch string, c RetryCase) (res RetryResult) {
	dir := scratch + "/w"
	_ = os.RemoveAll(dir)
	if err := os.MkdirAll(dir, 0o755); err != nil {
		res.Err = err.Error()
		return
	}
	defer os.RemoveAll(dir)
	mm, err := New(c.Params.String())
	if err != nil {
		res.Err = err.Error()
		return
	}
	m := mm.(*model)
	defer m.Close()
	if err := m.Init(dir); err != nil {
		res.Err = "init: " + err.Error()
		return
	}
	for _, a := range c.History {
		if _, _, err := m.Apply(a); err != nil {
			res.Err = fmt.Sprintf("history %s: %v", a, err)
			return
		}
		if m.repo == nil {
			res.Err = "history closed the repository"
			return
		}
	}
	before, bad := m.fileClocks()
	if len(bad) > 0 {
		res.Err = fmt.Sprint("clock file without a number: ", bad)
		return
	}
	res.Before = before

	var handle repository.ClockedRepo
	switch c.Family {
	case "op":
		fr := newFaultClockRepo(m.repo, m.gitdir)
		handle = fr
		if c.P == 0 {
			fr.fs.arm(0)
			if err := m.doStep(fr, c.Step); err != nil {
				res.Err = "fault-free step fails: " + err.Error()
				return
			}
			res.Ops = fr.fs.classes
			return
		}
		for i := 0; i < c.Attempts; i++ {
			fr.fs.arm(c.P)
			err := m.doStep(fr, c.Step)
			if fr.fs.hit != "" {
				res.Reached, res.Class = true, fr.fs.hit
			}
			if err != nil {
				res.StepErrs = append(res.StepErrs, err.Error())
			} else {
				res.StepErrs = append(res.StepErrs, "")
			}
		}
		fr.fs.arm(0)
	case "dir":
		// the real handle, with its clocks loaded the way a running process has them
		handle = m.repo
		if _, err := m.repo.AllClocks(); err != nil {
			res.Err = err.Error()
			return
		}
		name := []string{editClock, createClock}[c.P]
		res.Class = "rename-blocked-by-directory"
		path := filepath.Join(m.gitdir, world.Namespace, "clocks", name)
		old, err := os.ReadFile(path)
		if err != nil {
			res.Err = err.Error()
			return
		}
		if err := os.Remove(path); err == nil {
			err = os.MkdirAll(filepath.Join(path, "x"), 0o755)
		}
		if err != nil {
			res.Err = err.Error()
			return
		}
		for i := 0; i < c.Attempts; i++ {
			if err := m.doStep(handle, c.Step); err != nil {
				res.Reached = true
				res.StepErrs = append(res.StepErrs, err.Error())
			} else {
				res.StepErrs = append(res.StepErrs, "")
			}
		}
		// the cause of the fault goes away; the file is what the last successful write left
		if err := os.RemoveAll(path); err == nil {
			err = os.WriteFile(path, old, 0o644)
		}
		if err != nil {
			res.Err = err.Error()
			return
		}
	default:
		res.Err = "unknown family"
		return
	}

	// the retry, on the same handle
	if err := m.doStep(handle, c.Step); err != nil {
		res.RetryErr = err.Error()
	}

	// restart
	what := fmt.Sprintf("%s/%s", c.Step, res.Class)
	add := func(sig, format string, a ...any) {
		res.Viol = append(res.Viol, xstate.Violation{Oracle: "c05.fault-retry", Sig: what + ":" + sig, Detail: fmt.Sprintf(format, a...)})
	}
	if err := m.reopen(); err != nil {
		add("restart-fails", "after the retried step the repository does not open: %v", err)
		return
	}
	after, bad := m.fileClocks()
	res.AfterFile = after
	for _, b := range bad {
		add("clock-file-not-a-number", "after the retried step the clock file holds %s", b)
	}
	live, err := m.liveClocks()
	if err != nil {
		add("clocks-unusable", "%v", err)
		return
	}
	for n, v0 := range before {
		if after[n] < v0 {
			add("persisted-clock-decreased", "persisted clock %s was %d before the step and is %d after fault, retry and restart", n, v0, after[n])
		}
	}
	edit, create, _ := m.localMax()
	res.Stored = map[string]uint64{editClock: edit, createClock: create}
	for n, want := range res.Stored {
		if want == 0 {
			continue
		}
		if after[n] < want || live[n] < want {
			add("persisted-clock-below-stored-time", "after fault, retry (error %q) and restart clock %s is %d on disk and %d live, a commit of a local bug stores %d", res.RetryErr, n, after[n], live[n], want)
		}
	}
	// what is written next sorts after everything stored
	for _, next := range []string{"newbug", "edit"} {
		refsBefore := m.presentCommits()
		if err := m.doStep(m.repo, next); err != nil {
			add(next+"-after-restart-fails", "%v", err)
			continue
		}
		refs, _ := m.repo.ListRefs("refs/bugs/")
		for _, r := range refs {
			d, err := m.dagOf(r)
			if err != nil {
				continue
			}
			for h, p := range d.Packs {
				if refsBefore[h] {
					continue
				}
				if p.EditTime <= edit {
					add(next+"-time-not-above-stored", "after fault, retry and restart a %s wrote edit time %d, a commit stored before has %d", next, p.EditTime, edit)
				}
				if p.HasCreate && p.CreateTime <= create {
					add(next+"-time-not-above-stored", "after fault, retry and restart a %s wrote creation time %d, a bug stored before has %d", next, p.CreateTime, create)
				}
			}
		}
		e2, c2, _ := m.localMax()
		if e2 > edit {
			edit = e2
		}
		if c2 > create {
			create = c2
		}
	}
	return
}

// RetryWorker is the body of the c05retry sub-command.
func RetryWorker(args []string) {
	scratch := world.ScratchRoot()
	defer os.RemoveAll(scratch)
	subproc.Serve(func(id string) any {
		var c RetryCase
		if err := json.Unmarshal([]byte(id), &c); err != nil {
			return RetryResult{Err: "bad case"}
		}
		return runRetryCase(scratch, c)
	})
}

// ---- enumeration ------------------------------------------------------------------------------

func retryHistories(tier string) [][]string {
	alphabet := []string{"merge", "edit", "newbug", "delclocks(all)", "identmut"}
	out := [][]string{{}}
	for _, a := range alphabet {
		out = append(out, []string{a})
	}
	if tier == "thorough" {
		for _, a := range alphabet {
			for _, b := range alphabet {
				if a == "identmut" && b == "identmut" {
					continue
				}
				out = append(out, []string{a, b})
			}
		}
	} else {
		// the diverged merge (a merge commit is written) and a merge into more local bugs
		out = append(out, []string{"edit", "merge"}, []string{"newbug", "merge"})
	}
	return out
}

type retryHit struct {
	v     xstate.Violation
	c     RetryCase
	count int
}

// exploreRetries runs the whole enumeration and reports violations through report.
func exploreRetries(tier string, seed uint64, report func(v xstate.Violation, c RetryCase, count, repro int)) (cov map[string]any, harnessErr bool) {
	params := Params{Seed: seed, Edit2: true, MaxIdent: 0, MaxNew: 0}
	mk := func(c RetryCase) string { b, _ := json.Marshal(c); return string(b) }
	hs := retryHistories(tier)
	// probes: the file operations of every (history, step)
	var probes []RetryCase
	for _, h := range hs {
		for _, s := range retrySteps {
			probes = append(probes, RetryCase{Params: params, History: h, Step: s, Family: "op", P: 0, Attempts: 1})
		}
	}
	ids := make([]string, len(probes))
	for i, p := range probes {
		ids[i] = mk(p)
	}
	pres, err := subproc.Run([]string{"c05retry"}, ids, 0)
	if err != nil {
		fmt.Fprintln(os.Stderr, "harness error:", err)
		return nil, true
	}
	var cases []RetryCase
	opClasses := map[string]int{}
	points := 0
	for i, r := range pres {
		var rr RetryResult
		if r.Crashed || json.Unmarshal(r.Out, &rr) != nil || rr.Err != "" {
			fmt.Fprintf(os.Stderr, "harness error: retry probe %v %s: crashed=%v %s %s\n", probes[i].History, probes[i].Step, r.Crashed, rr.Err, r.Stderr)
			harnessErr = true
			continue
		}
		for p, cl := range rr.Ops {
			opClasses[cl]++
			points++
			for _, a := range []int{1, 2} {
				c := probes[i]
				c.P, c.Attempts = p+1, a
				cases = append(cases, c)
			}
		}
		for d := 0; d < 2; d++ {
			for _, a := range []int{1, 2} {
				c := probes[i]
				c.Family, c.P, c.Attempts = "dir", d, a
				cases = append(cases, c)
			}
		}
	}
	ids = make([]string, len(cases))
	for i, c := range cases {
		ids[i] = mk(c)
	}
	results, err := subproc.Run([]string{"c05retry"}, ids, 0)
	if err != nil {
		fmt.Fprintln(os.Stderr, "harness error:", err)
		return nil, true
	}
	hits := map[string]*retryHit{}
	var order []string
	outcomes := map[string]int{}
	raised := 0
	unreached := 0
	var samples []any
	for i, r := range results {
		var rr RetryResult
		if r.Crashed {
			v := xstate.Violation{Oracle: "c05.fault-retry", Sig: cases[i].Step + "/process-dies", Detail: "the process died: " + r.Stderr}
			rr.Viol = append(rr.Viol, v)
		} else if json.Unmarshal(r.Out, &rr) != nil || rr.Err != "" {
			fmt.Fprintf(os.Stderr, "harness error: retry case %s: %s\n", ids[i], rr.Err)
			harnessErr = true
			continue
		}
		if !r.Crashed && cases[i].Family == "op" && !rr.Reached {
			// the step issued fewer file operations than in the probe (possible only where the
			// number of clock writes depends on the order of a map iteration)
			unreached++
		}
		failed := 0
		for _, e := range rr.StepErrs {
			if e != "" {
				failed++
			}
		}
		tag := "step-reported-error"
		if failed == 0 {
			tag = "step-swallowed-error"
		}
		if rr.RetryErr != "" {
			tag += "+retry-failed"
		} else {
			tag += "+retry-ok"
		}
		outcomes[cases[i].Step+": "+tag]++
		for n, v := range rr.AfterFile {
			if v > rr.Before[n] {
				raised++
				break
			}
		}
		if len(samples) < 6 && i%97 == 3 {
			samples = append(samples, map[string]any{"fault_retry_case": cases[i], "fault": rr.Class, "step_errors": rr.StepErrs, "clock_files_before": rr.Before, "clock_files_after_restart": rr.AfterFile, "stored_maxima": rr.Stored})
		}
		for _, v := range rr.Viol {
			key := v.Oracle + "|" + v.Sig
			if h, ok := hits[key]; ok {
				h.count++
				continue
			}
			hits[key] = &retryHit{v: v, c: cases[i], count: 1}
			order = append(order, key)
		}
	}
	sort.Strings(order)
	for _, key := range order {
		h := hits[key]
		// reproduce 5x
		re := make([]string, 5)
		for j := range re {
			re[j] = mk(h.c)
		}
		n := 0
		if rr5, err := subproc.Run([]string{"c05retry"}, re, 5); err == nil {
			for _, r := range rr5 {
				var rr RetryResult
				if r.Crashed {
					if strings.HasSuffix(h.v.Sig, "process-dies") {
						n++
					}
					continue
				}
				if json.Unmarshal(r.Out, &rr) == nil {
					for _, v := range rr.Viol {
						if v.Oracle == h.v.Oracle && v.Sig == h.v.Sig {
							n++
							break
						}
					}
				}
			}
		}
		report(h.v, h.c, h.count, n)
	}
	cov = map[string]any{
		"histories": len(hs), "steps": retrySteps, "history_step_pairs": len(probes),
		"fault_points": points, "fault_points_by_file_operation": opClasses,
		"cases": len(cases), "cases_where_a_persisted_clock_moved_forward": raised,
		"outcomes": outcomes, "samples": samples, "fault_points_not_reached": unreached,
		"rule": "histories × steps × (every file operation of the real PersistedClock during the step, one injected error) × attempts {1,2}, plus clock file replaced by a directory × {bugs-edit, bugs-create} × attempts {1,2}; then a fault-free retry on the same handle, restart through OpenGoGitRepo + clock loader, clock oracle",
	}
	return cov, harnessErr
}

// ReplayRetry re-executes one case from a replay file; 1 = reproduced.
func ReplayRetry(oracle, sig string, c RetryCase) int {
	b, _ := json.Marshal(c)
	res, err := subproc.Run([]string{"c05retry"}, []string{string(b)}, 1)
	if err != nil {
		fmt.Fprintln(os.Stderr, "harness error:", err)
		return 2
	}
	if res[0].Crashed {
		fmt.Println("the process died:", res[0].Stderr)
		return 1
	}
	var rr RetryResult
	if err := json.Unmarshal(res[0].Out, &rr); err != nil || rr.Err != "" {
		fmt.Fprintln(os.Stderr, "harness error:", err, rr.Err)
		return 2
	}
	fmt.Printf("history %v, step %s, fault %s (%s), errors of the faulted attempts %q, retry error %q\n  clock files before %v, after restart %v, stored maxima %v\n",
		c.History, c.Step, rr.Class, attemptsName(c.Attempts), rr.StepErrs, rr.RetryErr, rr.Before, rr.AfterFile, rr.Stored)
	hit := false
	for _, v := range rr.Viol {
		fmt.Printf("  violation %s|%s: %s\n", v.Oracle, v.Sig, v.Detail)
		if v.Oracle == oracle && v.Sig == sig {
			hit = true
		}
	}
	if hit {
		fmt.Println("reproduced")
		return 1
	}
	fmt.Println("not reproduced")
	return 0
}
