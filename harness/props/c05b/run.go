package c05b

import (
	"encoding/json"
	"flag"
	"fmt"
	"os"
	"sort"
	"time"

	"verifharness/evidence"
	"verifharness/props/syncrun"
	"verifharness/xstate"
)

type run struct {
	name   string
	params Params
	depth  int
	budget time.Duration
}

func plan(tier string, seed uint64) []run {
	// Measured (idle 16 cores): persisted flavour ≈ 1 ms wall per transition, in-memory ≈ 0.2 ms;
	// quick = about 25 000 + 41 000 transitions; thorough about 150 000 + 300 000.
	if tier == "thorough" {
		return []run{
			{"persisted clocks (GoGitRepo), one replica with a pre-fetched remote", Params{Seed: seed, Edit2: true, DelSingle: true, MaxIdent: 2, MaxNew: 3}, 7, 9 * time.Minute},
			{"in-memory clocks (mockRepo)", Params{Mem: true, Seed: seed, Edit2: true, MaxIdent: 2, MaxNew: 3}, 8, 4 * time.Minute},
			{"persisted clocks, remote head is a merge commit written by the other replica", Params{Seed: seed, MergeHead: true, Edit2: true, DelSingle: true, MaxIdent: 1, MaxNew: 2}, 6, 5 * time.Minute},
			{"persisted clocks, clock files deleted while the handle stays open (one file, both, the directory)", Params{Seed: seed, LiveDel: 2, MaxIdent: 2, MaxNew: 2}, 6, 5 * time.Minute},
		}
	}
	return []run{
		{"persisted clocks (GoGitRepo), one replica with a pre-fetched remote", Params{Seed: seed, Edit2: true, DelSingle: true, MaxIdent: 1, MaxNew: 2}, 6, 150 * time.Second},
		{"in-memory clocks (mockRepo)", Params{Mem: true, Seed: seed, Edit2: true, MaxIdent: 1, MaxNew: 2}, 7, 60 * time.Second},
		{"persisted clocks, remote head is a merge commit written by the other replica", Params{Seed: seed, MergeHead: true, MaxIdent: 1, MaxNew: 1}, 4, 60 * time.Second},
		{"persisted clocks, clock files deleted while the handle stays open (both files, the directory)", Params{Seed: seed, LiveDel: 1, MaxIdent: 2, MaxNew: 1}, 5, 60 * time.Second},
	}
}

const rule = "(a) clock monitor on every write of the replica-synchronisation exploration; (c) fault + retry enumeration over clock-file operations (see fault_retry_enumeration); (b) breadth-first over all sequences of newbug/edit/edit2/read/readall/merge/reopen/delclocks/delclocks-live (files deleted under the open handle)/brokenrebuild/identmut/identnew on one replica with a pre-fetched remote, states deduplicated by (all refs, persisted clock files, live clock values, seam counters, largest edit time seen so far); a state is non-trivial when distinct by that key"

// Main is the whole C05 check: the monitor on the sync world plus the dedicated clock machine.
func Main(args []string) {
	fs := flag.NewFlagSet("C05", flag.ExitOnError)
	replay := fs.String("replay", "", "replay file")
	depthOverride := fs.Int("depth", 0, "override depth of every run")
	only := fs.String("only", "", "run only 'monitor', 'machine' or 'retry'")
	budgetX := fs.Int("budgetx", 1, "multiply the time budgets of the machine (experiments)")
	fs.Parse(args)
	if *replay != "" {
		var f struct {
			Oracle string `json:"oracle"`
			Sig    string `json:"sig"`
			Replay struct {
				Model string    `json:"model"`
				Case  RetryCase `json:"case"`
			} `json:"replay"`
		}
		if b, err := os.ReadFile(*replay); err == nil && json.Unmarshal(b, &f) == nil && f.Replay.Model == "c05retry" {
			os.Exit(ReplayRetry(f.Oracle, f.Sig, f.Replay.Case))
		}
		if b, err := os.ReadFile(*replay); err == nil && json.Unmarshal(b, &f) == nil && f.Replay.Model == "c05threads" {
			os.Exit(replayThreads(*replay))
		}
		os.Exit(syncrun.Replay(*replay))
	}
	tier := evidence.Tier()
	seed := uint64(evidence.Seed())
	rep := evidence.NewReporter("C05")
	start := time.Now()

	cov := map[string]any{"states": 0, "transitions": 0}
	var runInfo []any
	var samples []any
	outcomes := map[string]int{}
	exhaustive := true
	harnessErr := false

	if *only == "" || *only == "monitor" {
		mc, herr := syncrun.Explore("C05A", tier, seed, *depthOverride, rep)
		harnessErr = harnessErr || herr
		cov["states"] = mc["states"]
		cov["transitions"] = mc["transitions"]
		if rs, ok := mc["runs"].([]map[string]any); ok {
			for _, r := range rs {
				runInfo = append(runInfo, r)
			}
		}
		if ss, ok := mc["samples"].([]any); ok {
			samples = append(samples, ss...)
		}
		if oc, ok := mc["transition_outcomes"].(map[string]int); ok {
			for k, v := range oc {
				outcomes["monitor: "+k] += v
			}
		}
		if ex, ok := mc["exhaustive"].(bool); ok && !ex {
			exhaustive = false
		}
	}
	if *only == "" || *only == "machine" {
		for _, r := range plan(tier, seed) {
			depth := r.depth
			if *depthOverride > 0 {
				depth = *depthOverride
			}
			cfg := xstate.Config{Property: "C05", Model: "c05b", Params: r.params.String(), MaxDepth: depth,
				Deadline: time.Now().Add(r.budget * time.Duration(*budgetX)), Log: os.Stderr}
			fmt.Fprintf(os.Stderr, "== C05 clock machine: %s (depth %d)\n", r.name, depth)
			res := xstate.Run(cfg)
			cov["states"] = cov["states"].(int) + res.States
			cov["transitions"] = cov["transitions"].(int) + res.Transitions
			if !res.Exhaustive {
				exhaustive = false
			}
			for k, v := range res.Outcomes {
				outcomes["machine: "+k] += v
			}
			runInfo = append(runInfo, map[string]any{"configuration": r.name, "params": r.params, "max_depth": depth,
				"completed_depth": res.CompletedDepth, "states": res.States, "transitions": res.Transitions,
				"new_states_per_depth": res.PerDepth, "exhaustive_to_depth": res.Exhaustive, "state_tags": res.Tags})
			for _, s := range res.Samples {
				samples = append(samples, map[string]any{"configuration": r.name, "path": s})
			}
			for _, e := range res.HarnessErrors {
				fmt.Fprintln(os.Stderr, "harness error:", e)
				harnessErr = true
			}
			sort.Slice(res.Found, func(i, j int) bool { return len(res.Found[i].Path) < len(res.Found[j].Path) })
			for _, fd := range res.Found {
				n := xstate.Reproductions("c05b", r.params.String(), fd, 5)
				rep.Report(evidence.Report{Oracle: fd.Oracle, Sig: fd.Sig,
					Detail: fmt.Sprintf("[%s] after %v: %s (reproduced %d/5)", r.name, fd.Path, fd.Detail, n),
					Replay: map[string]any{"model": "c05b", "params": r.params, "path": fd.Path, "reproduced_of_5": n},
					Count:  res.SigCount[fd.Oracle+"|"+fd.Sig]})
			}
		}
	}
	if *only == "" || *only == "retry" {
		fmt.Fprintln(os.Stderr, "== C05 fault + retry enumeration (error at a clock-file operation, retry on the same handle, restart)")
		t0 := time.Now()
		rc, herr := exploreRetries(tier, seed, func(v xstate.Violation, c RetryCase, count, repro int) {
			rep.Report(evidence.Report{Oracle: v.Oracle, Sig: v.Sig,
				Detail: fmt.Sprintf("[fault + retry] history %v, step %s, %s fault number %d, %s, then retried on the same handle and restarted: %s (reproduced %d/5)", c.History, c.Step, c.Family, c.P, attemptsName(c.Attempts), v.Detail, repro),
				Replay: map[string]any{"model": "c05retry", "case": c, "reproduced_of_5": repro}, Count: count})
		})
		harnessErr = harnessErr || herr
		if rc != nil {
			if ss, ok := rc["samples"].([]any); ok {
				samples = append(samples, ss...)
				delete(rc, "samples")
			}
			rc["wall_s"] = time.Since(t0).Seconds()
			cov["fault_retry_enumeration"] = rc
			fmt.Fprintf(os.Stderr, "fault + retry: %v histories, %v fault points, %v cases in %.1fs\n", rc["histories"], rc["fault_points"], rc["cases"], time.Since(t0).Seconds())
		}
		if herr {
			exhaustive = false
		}
	}
	if *only == "" || *only == "threads" {
		tc, herr := exploreThreads(rep)
		harnessErr = harnessErr || herr
		if tc != nil {
			cov["thread_schedules"] = tc
			if ex, ok := tc["exhaustive"].(bool); ok && !ex {
				exhaustive = false
			}
		}
	}
	cov["traces_validated_against_impl"] = cov["transitions"]
	cov["exhaustive"] = exhaustive
	cov["rule"] = rule
	cov["runs"] = runInfo
	cov["samples"] = samples
	cov["transition_outcomes"] = outcomes
	cov["distinct_outcomes"] = len(outcomes)

	assumptions := append([]string{}, syncrun.Assumptions...)
	assumptions = append(assumptions,
		"'seen' is what the statement lists: commits the replica wrote, read successfully, fetched-and-merged, or that were in its local refs when its clocks were rebuilt; fetched but unmerged commits are not seen",
		"deleting clock files is an action of the environment: values are compared across it only with the maximum stored in the local entities",
		"the in-memory flavour builds the fetched remote state with a second set of clocks over the same mockRepo object store (mockRepo has no transport)",
		"crash-torn clock files are C06; concurrent use of a whole cache is C18; the clock of one repository handle under 2-3 threads (first use, increment, witness) is explored here with the scheduler of C18 (coverage.thread_schedules), in a second build of the harness that ./check provides")
	ev := evidence.Evidence{PropertyID: "C05", Tier: tier, Seed: int(seed), Level: "model_checking", Coverage: cov,
		Assumptions: assumptions, WallS: time.Since(start).Seconds(), Violations: rep.Viol, Known: rep.KnownSeen()}
	if err := ev.Write(); err != nil {
		fmt.Fprintln(os.Stderr, "harness error: cannot write evidence:", err)
		os.Exit(2)
	}
	fmt.Printf("C05: states=%v transitions=%v exhaustive=%v violations=%d wall=%.1fs\n", cov["states"], cov["transitions"], exhaustive, rep.Viol, time.Since(start).Seconds())
	if harnessErr && rep.Viol == 0 {
		os.Exit(2)
	}
	rep.Exit()
}
