// Package c05b is the dedicated clock machine of C05 (DESIGN §C05 b): one replica with a
// pre-fetched remote, explored by engine X over all sequences of
//
//	newbug, edit, edit2, read, readall, merge, reopen, delclocks(all|edit|create), identmut
//
// on the persisted clocks of a real GoGitRepo and on the in-memory clocks of git-bug's mockRepo
// (no reopen / delete there). The oracles are transition relations over what the replica has
// *seen* along the path (written, successfully read, fetched-and-merged, rebuilt its clocks from).
package c05b

import (
	"crypto/sha256"
	"encoding/hex"
	"encoding/json"
	"fmt"
	"os"
	"path/filepath"
	"sort"
	"strconv"
	"strings"

	"github.com/MichaelMure/git-bug/entities/bug"
	"github.com/MichaelMure/git-bug/entities/identity"
	"github.com/MichaelMure/git-bug/entity"
	"github.com/MichaelMure/git-bug/repository"
	"github.com/MichaelMure/git-bug/util/lamport"
	"github.com/MichaelMure/git-bug/verifshim/vctl"
	"github.com/MichaelMure/git-bug/verifshim/vtime"

	"verifharness/refmodel"
	"verifharness/world"
	"verifharness/xstate"
)

const (
	editClock   = "bugs-edit"
	createClock = "bugs-create"
	remoteName  = "R"
)

// Params selects the clock implementation and the action alphabet.
type Params struct {
	Mem       bool   `json:"mem"` // mockRepo + MemClock instead of GoGitRepo + PersistedClock
	Seed      uint64 `json:"seed"`
	Edit2     bool   `json:"edit2"`     // two-author (two-pack) commits
	DelSingle bool   `json:"delsingle"` // also delete only one of the two clock files
	// LiveDel: clock files deleted while the handle stays open and goes on being used
	// (delclocks-live): 1 = both files / the whole directory, 2 = also a single file
	LiveDel  int `json:"livedel"`
	MaxIdent int `json:"maxident"` // at most this many identity mutations per path (0 = unbounded)
	MaxNew   int `json:"maxnew"`   // at most this many new bugs per path (0 = unbounded)
	// MergeHead: the pre-fetched remote head of the shared bug is a merge commit written by the
	// OTHER replica (it merged an edit of ours with its own work), carrying the largest edit time.
	MergeHead bool `json:"mergehead"`
}

func (p Params) String() string { b, _ := json.Marshal(p); return string(b) }

type model struct {
	p Params

	// persisted flavour
	w      *world.World
	pathA  string
	gitdir string

	repo  repository.ClockedRepo // replica A
	userA entity.Id
	userB entity.Id
	bug0  entity.Id

	// path history
	seen       map[repository.Hash]bool // bug commits A has written, read, merged or rebuilt from
	seenMax    uint64                   // largest edit time among them
	nIdent     int
	nNew       int
	delSinceID bool            // clock files were deleted since the last identity version was written
	liveSeen   map[string]bool // clocks the current handle is known to hold in memory
}

func New(params string) (xstate.Model, error) {
	var p Params
	if err := json.Unmarshal([]byte(params), &p); err != nil {
		return nil, err
	}
	return &model{p: p, seen: map[repository.Hash]bool{}}, nil
}

var loaders = []repository.ClockLoader{bug.ClockLoader}

func resolvers(repo repository.ClockedRepo) entity.Resolvers {
	return entity.Resolvers{&identity.Identity{}: identity.NewSimpleResolver(repo)}
}

type initMeta struct {
	UserA, UserB, Bug0 entity.Id
}

// ---- initial state ----------------------------------------------------------------------------

func (m *model) Init(dir string) error {
	vctl.Activate(m.p.Seed, 0)
	if m.p.Mem {
		if err := m.buildMem(); err != nil {
			return err
		}
		return m.initSeen()
	}
	m.pathA = filepath.Join(dir, "A")
	m.gitdir = filepath.Join(m.pathA, ".git")
	names := []string{"A", "B"}
	if meta, ok, err := world.RestoreTemplate(dir); err != nil {
		return err
	} else if ok {
		var im initMeta
		if err := json.Unmarshal(meta, &im); err != nil {
			return err
		}
		w, err := world.Open(dir, []string{"A"}, nil, nil)
		if err != nil {
			return err
		}
		m.w, m.userA, m.userB, m.bug0 = w, im.UserA, im.UserB, im.Bug0
	} else {
		if err := m.buildDisk(dir, names); err != nil {
			return err
		}
		meta, _ := json.Marshal(initMeta{m.userA, m.userB, m.bug0})
		if err := world.SaveTemplate(dir, meta); err != nil {
			return err
		}
	}
	// replica A is used the way an application opens it: with git-bug's clock loader
	if err := m.reopen(); err != nil {
		return err
	}
	return m.initSeen()
}

func (m *model) buildDisk(dir string, names []string) error {
	w, err := world.Create(dir, names, []string{remoteName}, false)
	if err != nil {
		return err
	}
	m.w = w
	if err := w.SetupUsers(remoteName); err != nil {
		return err
	}
	m.userA, m.userB = w.Users["A"], w.Users["B"]
	a, b := w.Repos["A"], w.Repos["B"]
	vctl.SetActor("setup/A")
	ua, err := identity.ReadLocal(a, m.userA)
	if err != nil {
		return err
	}
	b0, _, err := bug.Create(ua, vtime.Now().Unix(), "initial", "initial message", nil, nil)
	if err != nil {
		return err
	}
	if err := b0.Commit(a); err != nil {
		return err
	}
	m.bug0 = b0.Id()
	if _, err := bug.Push(a, remoteName); err != nil {
		return err
	}
	// B runs ahead: two separate commits on the shared bug and a bug of its own
	vctl.SetActor("setup/B")
	ub, err := identity.ReadLocal(b, m.userB)
	if err != nil {
		return err
	}
	if err := bug.Pull(b, resolvers(b), remoteName, ub); err != nil {
		return err
	}
	if m.p.MergeHead {
		// A edits the shared bug and publishes it before B works: B will have to merge
		vctl.SetActor("setup/A")
		ab, err := bug.Read(a, m.bug0)
		if err != nil {
			return err
		}
		ab.Append(bug.NewAddCommentOp(ua, vtime.Now().Unix(), "local comment published before the remote worked", nil))
		if err := ab.Commit(a); err != nil {
			return err
		}
		if _, err := bug.Push(a, remoteName); err != nil {
			return err
		}
		vctl.SetActor("setup/B")
	}
	if err := remoteWork(b, ub, m.bug0); err != nil {
		return err
	}
	if m.p.MergeHead {
		// B merges A's published edit with its own commits: the head it pushes is B's merge commit
		if err := bug.Pull(b, resolvers(b), remoteName, ub); err != nil {
			return err
		}
	}
	if _, err := bug.Push(b, remoteName); err != nil {
		return err
	}
	// A fetches and does not merge: the pre-fetched remote
	vctl.SetActor("setup/A")
	if _, err := bug.Fetch(a, remoteName); err != nil {
		return err
	}
	// from here on only A acts and nothing is fetched or pushed: B and R are dropped so that
	// restoring the initial state for every execution copies one repository instead of three
	w.Close()
	for _, n := range []string{"B", remoteName} {
		if err := os.RemoveAll(filepath.Join(dir, n)); err != nil {
			return err
		}
	}
	m.w, err = world.Open(dir, []string{"A"}, nil, nil)
	return err
}

// remoteWork is what the other side did before the exploration starts.
func remoteWork(repo repository.ClockedRepo, author identity.Interface, shared entity.Id) error {
	// The bugs of its own come first and the edits of the shared bug last, so that the shared bug
	// carries the largest times of the remote state: the result of merging everything is then the
	// same in whatever order the refs are merged (mockRepo lists refs in Go map order).
	for i := 0; i < 2; i++ {
		nb, _, err := bug.Create(author, vtime.Now().Unix(), fmt.Sprintf("remote bug %d", i), "remote message", nil, nil)
		if err != nil {
			return err
		}
		if i == 1 {
			nb.Append(bug.NewAddCommentOp(author, vtime.Now().Unix(), "second commit of the remote bug", nil))
		}
		if err := nb.Commit(repo); err != nil {
			return err
		}
	}
	for i := 0; i < 2; i++ {
		b, err := bug.Read(repo, shared)
		if err != nil {
			return err
		}
		b.Append(bug.NewAddCommentOp(author, vtime.Now().Unix(), fmt.Sprintf("remote comment %d", i), nil))
		if err := b.Commit(repo); err != nil {
			return err
		}
	}
	return nil
}

// clockView shares the data of a repository and keeps clocks of its own: the "other replica" of
// the in-memory flavour (mockRepo has no transport).
type clockView struct {
	repository.ClockedRepo
	clk repository.RepoClock
}

func (v clockView) AllClocks() (map[string]lamport.Clock, error) { return v.clk.AllClocks() }
func (v clockView) GetOrCreateClock(name string) (lamport.Clock, error) {
	return v.clk.GetOrCreateClock(name)
}
func (v clockView) Increment(name string) (lamport.Time, error) { return v.clk.Increment(name) }
func (v clockView) Witness(name string, t lamport.Time) error   { return v.clk.Witness(name, t) }

func (m *model) buildMem() error {
	repo := repository.NewMockRepo()
	m.repo = repo
	vctl.SetActor("setup/A")
	ua, err := identity.NewIdentity(repo, "user A", "A@example.org")
	if err != nil {
		return err
	}
	if err := ua.Commit(repo); err != nil {
		return err
	}
	m.userA = ua.Id()
	b0, _, err := bug.Create(ua, vtime.Now().Unix(), "initial", "initial message", nil, nil)
	if err != nil {
		return err
	}
	if err := b0.Commit(repo); err != nil {
		return err
	}
	m.bug0 = b0.Id()
	localHead, err := repo.ResolveRef("refs/bugs/" + string(m.bug0))
	if err != nil {
		return err
	}
	// the other side works on the same object store with clocks of its own
	vctl.SetActor("setup/B")
	other := clockView{ClockedRepo: repo, clk: repository.NewMockRepoClock()}
	ub, err := identity.NewIdentity(other, "user B", "B@example.org")
	if err != nil {
		return err
	}
	if err := ub.Commit(other); err != nil {
		return err
	}
	m.userB = ub.Id()
	before, _ := repo.ListRefs("refs/bugs/")
	if err := remoteWork(other, ub, m.bug0); err != nil {
		return err
	}
	// what B wrote becomes the fetched state of remote R; A's own refs go back to A's state
	after, _ := repo.ListRefs("refs/bugs/")
	for _, r := range after {
		if err := repo.CopyRef(r, "refs/remotes/"+remoteName+"/bugs/"+strings.TrimPrefix(r, "refs/bugs/")); err != nil {
			return err
		}
		if !contains(before, r) {
			if err := repo.RemoveRef(r); err != nil {
				return err
			}
		}
	}
	return repo.UpdateRef("refs/bugs/"+string(m.bug0), localHead)
}

func contains(l []string, s string) bool {
	for _, x := range l {
		if x == s {
			return true
		}
	}
	return false
}

// initSeen: everything in A's local bug refs at the start was written by A.
func (m *model) initSeen() error {
	refs, err := m.repo.ListRefs("refs/bugs/")
	if err != nil {
		return err
	}
	for _, r := range refs {
		d, err := m.dagOf(r)
		if err != nil {
			return err
		}
		m.markSeen(d)
	}
	return nil
}

func (m *model) Close() {
	if m.w != nil {
		m.w.Close()
	}
	vctl.Deactivate()
}

// reopen drops A's handle and opens the repository again the way git-bug does.
func (m *model) reopen() error {
	if old := m.w.Repos["A"]; old != nil {
		_ = old.Close()
		delete(m.w.Repos, "A")
	}
	m.liveSeen = nil
	r, err := repository.OpenGoGitRepo(m.pathA, world.Namespace, loaders)
	if err != nil {
		m.repo = nil
		return err
	}
	m.w.Repos["A"] = r
	m.repo = r
	return nil
}

// ---- observation helpers ----------------------------------------------------------------------

func (m *model) dagOf(ref string) (*refmodel.DAG, error) {
	h, err := m.repo.ResolveRef(ref)
	if err != nil {
		return nil, err
	}
	return refmodel.ReadDAG(m.repo, h)
}

func (m *model) markSeen(d *refmodel.DAG) {
	for c, p := range d.Packs {
		m.seen[c] = true
		if p.EditTime > m.seenMax {
			m.seenMax = p.EditTime
		}
	}
}

// presentCommits returns every bug commit reachable from a local or remote-tracking ref.
func (m *model) presentCommits() map[repository.Hash]bool {
	out := map[repository.Hash]bool{}
	for _, prefix := range []string{"refs/bugs/", "refs/remotes/" + remoteName + "/bugs/"} {
		refs, _ := m.repo.ListRefs(prefix)
		for _, r := range refs {
			if d, err := m.dagOf(r); err == nil {
				for c := range d.Packs {
					out[c] = true
				}
			}
		}
	}
	return out
}

// fileClocks reads the persisted clock files of A directly. A file that does not hold a number is
// reported with ok=false.
func (m *model) fileClocks() (map[string]uint64, []string) {
	out := map[string]uint64{}
	var bad []string
	dir := filepath.Join(m.gitdir, world.Namespace, "clocks")
	entries, _ := os.ReadDir(dir)
	for _, e := range entries {
		data, _ := os.ReadFile(filepath.Join(dir, e.Name()))
		v, err := strconv.ParseUint(strings.TrimSpace(string(data)), 10, 64)
		if err != nil {
			bad = append(bad, fmt.Sprintf("%s=%q", e.Name(), data))
			continue
		}
		out[e.Name()] = v
	}
	return out, bad
}

// liveClocks asks the live repository object for its clock values.
func (m *model) liveClocks() (map[string]uint64, error) {
	out := map[string]uint64{}
	if !m.p.Mem {
		// Observing must not change what the handle knows: AllClocks re-reads the clock directory
		// (and is itself part of what is under test: making an identity version calls it), so the
		// two bug clocks are asked for by name. GetOrCreateClock returns the clock the handle
		// holds, or loads its file; it is only used where it cannot create anything: the file
		// exists, or the handle has had the clock since it was opened.
		for _, n := range []string{editClock, createClock} {
			_, statErr := os.Stat(filepath.Join(m.gitdir, world.Namespace, "clocks", n))
			if statErr != nil && !m.liveSeen[n] {
				continue
			}
			c, err := m.repo.GetOrCreateClock(n)
			if err != nil {
				return nil, err
			}
			if m.liveSeen == nil {
				m.liveSeen = map[string]bool{}
			}
			m.liveSeen[n] = true
			out[n] = uint64(c.Time())
		}
		return out, nil
	}
	cs, err := m.repo.AllClocks()
	if err != nil {
		return nil, err
	}
	for n, c := range cs {
		out[n] = uint64(c.Time())
	}
	return out, nil
}

func renderClocks(c map[string]uint64) string {
	var names []string
	for n := range c {
		names = append(names, n)
	}
	sort.Strings(names)
	var sb strings.Builder
	for _, n := range names {
		fmt.Fprintf(&sb, "%s=%d,", n, c[n])
	}
	return sb.String()
}

// localMax returns the largest edit and creation time stored under A's local bug refs.
func (m *model) localMax() (edit, create uint64, dags []*refmodel.DAG) {
	refs, _ := m.repo.ListRefs("refs/bugs/")
	for _, r := range refs {
		d, err := m.dagOf(r)
		if err != nil {
			continue
		}
		dags = append(dags, d)
		for _, p := range d.Packs {
			if p.EditTime > edit {
				edit = p.EditTime
			}
			if p.CreateTime > create {
				create = p.CreateTime
			}
		}
	}
	return
}

// ---- actions ----------------------------------------------------------------------------------

func (m *model) Actions() []string {
	var out []string
	if m.repo == nil {
		return nil
	}
	if m.p.MaxNew == 0 || m.nNew < m.p.MaxNew {
		out = append(out, "newbug")
	}
	out = append(out, "edit")
	if m.p.Edit2 {
		out = append(out, "edit2")
	}
	out = append(out, "read", "readall", "merge")
	if !m.p.Mem {
		out = append(out, "reopen", "delclocks(all)")
		if refs, _ := m.repo.ListRefs("refs/bugs/"); len(refs) >= 2 {
			// the rebuild of deleted clocks fails half-way (the ref met last is damaged), the
			// damage is repaired, the repository is opened again
			out = append(out, "brokenrebuild")
		}
		if m.p.DelSingle {
			out = append(out, "delclocks(edit)", "delclocks(create)")
		}
		if m.p.LiveDel >= 1 {
			// the clock files disappear while the handle stays open and goes on being used
			out = append(out, "delclocks-live(all)", "delclocks-live(dir)")
		}
		if m.p.LiveDel >= 2 {
			out = append(out, "delclocks-live(edit)", "delclocks-live(create)")
		}
	}
	if m.p.MaxIdent == 0 || m.nIdent < m.p.MaxIdent {
		out = append(out, "identmut")
		if m.p.LiveDel >= 1 {
			out = append(out, "identnew")
		}
	}
	return out
}

type step struct {
	m       *model
	action  string
	viol    []xstate.Violation
	present map[repository.Hash]bool
	file0   map[string]uint64
	live0   map[string]uint64
}

func (s *step) add(oracle, sig, format string, a ...any) {
	s.viol = append(s.viol, xstate.Violation{Oracle: oracle, Sig: sig, Detail: fmt.Sprintf(format, a...)})
}

// written examines the commits that appeared under ref since the step began: each must carry an
// edit time above everything seen so far (in parents-first order, so that the packs of one write
// are also compared with each other). They then count as seen.
func (s *step) written(ref string) int {
	m := s.m
	d, err := m.dagOf(ref)
	if err != nil {
		return 0
	}
	var fresh []*refmodel.Pack
	for c, p := range d.Packs {
		if !s.present[c] {
			fresh = append(fresh, p)
		}
	}
	// parents first: ancestors have strictly fewer ancestors
	anc := map[repository.Hash]int{}
	for _, p := range fresh {
		anc[p.Commit] = len(d.Ancestors(p.Commit))
	}
	sort.Slice(fresh, func(i, j int) bool {
		if anc[fresh[i].Commit] != anc[fresh[j].Commit] {
			return anc[fresh[i].Commit] < anc[fresh[j].Commit]
		}
		return fresh[i].Commit < fresh[j].Commit
	})
	for _, p := range fresh {
		if p.EditTime <= m.seenMax {
			s.add("c05.monotone", kindOf(s.action)+"-writes-edit-time-not-above-seen",
				"%s wrote a commit with edit time %d although the repository had already written, read, merged or rebuilt its clocks from a commit with edit time %d", s.action, p.EditTime, m.seenMax)
		}
		m.seen[p.Commit] = true
		s.present[p.Commit] = true
		if p.EditTime > m.seenMax {
			m.seenMax = p.EditTime
		}
	}
	return len(fresh)
}

func kindOf(a string) string {
	if i := strings.IndexByte(a, '('); i >= 0 {
		return a[:i]
	}
	return a
}

func (m *model) begin(action string) (*step, error) {
	s := &step{m: m, action: action, present: m.presentCommits()}
	if !m.p.Mem {
		var bad []string
		s.file0, bad = m.fileClocks()
		if len(bad) > 0 {
			return nil, fmt.Errorf("clock file without a number before %s: %v", action, bad)
		}
	}
	live, err := m.liveClocks()
	if err != nil {
		return nil, err
	}
	s.live0 = live
	return s, nil
}

// end compares the clock values after the step with those before it.
func (s *step) end(deleted []string) {
	m := s.m
	isDeleted := func(n string) bool { return contains(deleted, n) }
	if !m.p.Mem {
		file1, bad := m.fileClocks()
		for _, b := range bad {
			s.add("c05.persisted", "clock-file-not-a-number", "after %s the clock file holds %s", s.action, b)
		}
		for n, v0 := range s.file0 {
			if isDeleted(n) {
				continue
			}
			v1, ok := file1[n]
			if !ok {
				s.add("c05.persisted", kindOf(s.action)+"-clock-file-gone", "after %s the persisted clock %s (was %d) does not exist", s.action, n, v0)
			} else if v1 < v0 {
				s.add("c05.persisted", kindOf(s.action)+"-persisted-clock-decreased", "%s moved the persisted clock %s back from %d to %d", s.action, n, v0, v1)
			}
		}
	}
	live1, err := m.liveClocks()
	if err != nil {
		s.add("c05.usable", kindOf(s.action)+"-clocks-unusable", "after %s the clocks cannot be listed: %v", s.action, err)
		return
	}
	for n, v0 := range s.live0 {
		if isDeleted(n) {
			continue
		}
		if v1 := live1[n]; v1 < v0 {
			s.add("c05.never-decrease", kindOf(s.action)+"-clock-decreased", "%s moved clock %s back from %d to %d", s.action, n, v0, v1)
		}
	}
}

func (m *model) user() (*identity.Identity, error) { return identity.ReadLocal(m.repo, m.userA) }

func (m *model) Apply(a string) (string, []xstate.Violation, error) {
	if m.repo == nil {
		return "", nil, fmt.Errorf("repository is not open")
	}
	vctl.SetActor("A")
	s, err := m.begin(a)
	if err != nil {
		return "", nil, err
	}
	outcome := "ok"
	var deleted []string
	switch kindOf(a) {
	case "newbug":
		m.nNew++
		u, err := m.user()
		if err != nil {
			return "", nil, err
		}
		b, _, err := bug.Create(u, vtime.Now().Unix(), fmt.Sprintf("local bug %d", m.nNew), "message", nil, nil)
		if err != nil {
			return "", nil, err
		}
		if err := b.Commit(m.repo); err != nil {
			s.add("c05.usable", "newbug-commit-fails", "creating a bug failed: %v", err)
			outcome = "commit-error"
			break
		}
		s.written("refs/bugs/" + string(b.Id()))
	case "edit", "edit2":
		outcome = m.edit(s, a == "edit2")
	case "read":
		ref := "refs/bugs/" + string(m.bug0)
		d, derr := m.dagOf(ref)
		if _, err := bug.Read(m.repo, m.bug0); err != nil {
			s.add("c05.readback", "read-fails", "the repository cannot read back bug %s: %v", m.bug0, err)
			outcome = "unreadable"
		} else if derr == nil {
			m.markSeen(d)
		}
	case "readall":
		_, _, dags := m.localMax()
		ok := true
		for e := range bug.ReadAll(m.repo) {
			if e.Err != nil {
				ok = false
				s.add("c05.readback", "readall-fails", "the repository cannot read back its bugs: %v", e.Err)
			}
		}
		if ok {
			for _, d := range dags {
				m.markSeen(d)
			}
		} else {
			outcome = "unreadable"
		}
	case "merge":
		outcome = m.merge(s)
	case "reopen":
		// clock files that are missing now (deleted under the previous handle) are rebuilt by the loader
		var missing []string
		for _, n := range []string{editClock, createClock} {
			if _, err := os.Stat(filepath.Join(m.gitdir, world.Namespace, "clocks", n)); err != nil {
				missing = append(missing, n)
			}
		}
		if err := m.reopen(); err != nil {
			s.add("c05.usable", "reopen-fails", "re-opening the repository failed: %v", err)
			return "open-error", s.viol, nil
		}
		if len(missing) > 0 {
			deleted = missing
			if !m.checkRebuilt(s, missing, fmt.Sprintf("after %v were deleted under an open handle and the repository was re-opened", missing), "-after-live-deletion") {
				return "open-error", s.viol, nil
			}
			outcome = "rebuilt"
		}
	case "delclocks-live":
		which := strings.TrimSuffix(strings.TrimPrefix(a, "delclocks-live("), ")")
		dir := filepath.Join(m.gitdir, world.Namespace, "clocks")
		switch which {
		case "all", "dir":
			deleted = []string{editClock, createClock}
		case "edit":
			deleted = []string{editClock}
		case "create":
			deleted = []string{createClock}
		}
		var err error
		if which == "dir" {
			err = os.RemoveAll(dir)
		} else {
			for _, n := range deleted {
				if e := os.Remove(filepath.Join(dir, n)); e != nil && !os.IsNotExist(e) {
					err = e
				}
			}
		}
		if err != nil {
			s.add("c05.harness", "cannot-delete", "%v", err)
		}
		// the handle stays as it is; identity versions made from now on cannot list these clocks
		m.delSinceID = true
		outcome = "deleted"
	case "identnew":
		outcome = m.identNew(s)
	case "delclocks":
		which := strings.TrimSuffix(strings.TrimPrefix(a, "delclocks("), ")")
		switch which {
		case "all":
			deleted = []string{editClock, createClock}
		case "edit":
			deleted = []string{editClock}
		case "create":
			deleted = []string{createClock}
		}
		outcome = m.delClocks(s, deleted)
		if m.repo == nil {
			return outcome, s.viol, nil
		}
	case "brokenrebuild":
		deleted = []string{editClock, createClock}
		outcome = m.brokenRebuild(s, deleted)
		if m.repo == nil {
			return outcome, s.viol, nil
		}
	case "identmut":
		outcome = m.identMut(s)
	default:
		return "", nil, fmt.Errorf("unknown action %s", a)
	}
	s.end(deleted)
	return outcome, s.viol, nil
}

func (m *model) edit(s *step, two bool) string {
	ref := "refs/bugs/" + string(m.bug0)
	d, derr := m.dagOf(ref)
	b, err := bug.Read(m.repo, m.bug0)
	if err != nil {
		s.add("c05.readback", "read-fails", "the repository cannot read back bug %s: %v", m.bug0, err)
		return "unreadable"
	}
	if derr == nil {
		m.markSeen(d)
	}
	u, err := m.user()
	if err != nil {
		s.add("c05.readback", "user-unreadable", "%v", err)
		return "unreadable"
	}
	n := len(b.Operations())
	b.Append(bug.NewAddCommentOp(u, vtime.Now().Unix(), fmt.Sprintf("local comment %d", n), nil))
	if two {
		o, err := identity.ReadLocal(m.repo, m.userB)
		if err != nil {
			s.add("c05.readback", "user-unreadable", "%v", err)
			return "unreadable"
		}
		b.Append(bug.NewAddCommentOp(o, vtime.Now().Unix(), fmt.Sprintf("local comment %d by the other author", n+1), nil))
	}
	if err := b.Commit(m.repo); err != nil {
		s.add("c05.usable", "edit-commit-fails", "committing an edit failed: %v", err)
		return "commit-error"
	}
	want := 1
	if two {
		want = 2
	}
	if got := s.written(ref); got != want {
		s.add("c05.harness", "unexpected-commit-count", "edit wrote %d commits, expected %d", got, want)
	}
	return "ok"
}

func (m *model) merge(s *step) string {
	u, err := m.user()
	if err != nil {
		s.add("c05.readback", "user-unreadable", "%v", err)
		return "unreadable"
	}
	prefix := "refs/remotes/" + remoteName + "/bugs/"
	remoteDAG := map[entity.Id]*refmodel.DAG{}
	refs, _ := m.repo.ListRefs(prefix)
	for _, r := range refs {
		if d, err := m.dagOf(r); err == nil {
			remoteDAG[entity.Id(strings.TrimPrefix(r, prefix))] = d
		}
	}
	var results []entity.MergeResult
	for r := range bug.MergeAll(m.repo, resolvers(m.repo), remoteName, u) {
		results = append(results, r)
	}
	// entities are merged one after the other: what was merged for an earlier one counts as seen
	// when the merge commit of a later one is written
	stats := map[string]int{}
	for _, r := range results {
		if r.Err != nil || r.Status == entity.MergeStatusInvalid {
			s.add("c05.usable", "merge-fails", "merging the valid remote state of %s failed: %v %s", r.Id, r.Err, r.Reason)
			stats["error"]++
			continue
		}
		if d := remoteDAG[r.Id]; d != nil {
			m.markSeen(d)
		}
		n := s.written("refs/bugs/" + string(r.Id))
		if n > 0 {
			stats["merge-commit"]++
		} else {
			stats[statusName(r.Status)]++
		}
	}
	var tags []string
	for k := range stats {
		tags = append(tags, k)
	}
	sort.Strings(tags)
	return strings.Join(tags, "+")
}

// brokenRebuild: the clock files are lost and, while they are being rebuilt, the loader fails on
// the bug ref it meets last (it points to a commit without clocks), after every other local bug
// was witnessed. The ref is then repaired and the repository opened again: the statement asks
// for clocks rebuilt to at least the stored maximum, however the earlier attempt ended.
func (m *model) brokenRebuild(s *step, names []string) string {
	gr := m.w.Repos["A"]
	refs, err := gr.ListRefs("refs/bugs/")
	if err != nil || len(refs) < 2 {
		s.add("c05.harness", "brokenrebuild-without-refs", "%v", err)
		return "skipped"
	}
	victim := refs[len(refs)-1]
	good, err := gr.ResolveRef(victim)
	if err != nil {
		s.add("c05.harness", "brokenrebuild-resolve", "%v", err)
		return "skipped"
	}
	// an existing commit that is not an operation pack (no clock entries in its tree): nothing is
	// written, so no seam counter moves and the repaired state equals the one delclocks reaches
	bad, err := gr.ResolveRef("refs/identities/" + string(m.userA))
	if err == nil {
		err = gr.UpdateRef(victim, bad)
	}
	if err != nil {
		s.add("c05.harness", "brokenrebuild-damage", "%v", err)
		return "skipped"
	}
	_ = gr.Close()
	delete(m.w.Repos, "A")
	m.repo = nil
	for _, n := range names {
		if err := os.Remove(filepath.Join(m.gitdir, world.Namespace, "clocks", n)); err != nil && !os.IsNotExist(err) {
			s.add("c05.harness", "cannot-delete", "%v", err)
		}
	}
	outcome := "first-open-failed"
	if r, err := repository.OpenGoGitRepo(m.pathA, world.Namespace, loaders); err == nil {
		// the statement does not say that opening must fail on a damaged ref
		outcome = "first-open-succeeded"
		_ = r.Close()
	}
	// repair through a handle that rebuilds nothing
	r, err := repository.OpenGoGitRepo(m.pathA, world.Namespace, nil)
	if err == nil {
		err = r.UpdateRef(victim, good)
		_ = r.Close()
	}
	if err != nil {
		s.add("c05.harness", "brokenrebuild-repair", "%v", err)
		return "skipped"
	}
	if err := m.reopen(); err != nil {
		s.add("c05.rebuild", "open-after-failed-rebuild-fails", "opening the repaired repository after a failed clock rebuild failed: %v", err)
		return "open-error"
	}
	m.checkRebuilt(s, names, "after a clock rebuild that failed half-way, repair and re-opening", "-after-failed-rebuild")
	return outcome + "+rebuilt"
}

func (m *model) delClocks(s *step, names []string) string {
	gr := m.w.Repos["A"]
	_ = gr.Close()
	for _, n := range names {
		if err := os.Remove(filepath.Join(m.gitdir, world.Namespace, "clocks", n)); err != nil && !os.IsNotExist(err) {
			s.add("c05.harness", "cannot-delete", "%v", err)
		}
	}
	if err := m.reopen(); err != nil {
		s.add("c05.rebuild", "open-after-clock-deletion-fails", "opening the repository after its clock files were deleted failed: %v", err)
		return "open-error"
	}
	if !m.checkRebuilt(s, names, fmt.Sprintf("after deleting %v and re-opening", names), "") {
		return "open-error"
	}
	return "rebuilt"
}

// checkRebuilt: each of the named clocks, live and persisted, is at least the maximum stored in
// the local bugs; those then count as seen.
func (m *model) checkRebuilt(s *step, names []string, when, sigSuffix string) bool {
	// the loader rebuilt the clocks from the local entities: they count as seen from now on
	edit, create, dags := m.localMax()
	live, err := m.liveClocks()
	if err != nil {
		s.add("c05.rebuild", "clocks-unusable-after-rebuild"+sigSuffix, "%v", err)
		return false
	}
	file, _ := m.fileClocks()
	for _, n := range names {
		want := edit
		if n == createClock {
			want = create
		}
		if want == 0 {
			continue
		}
		if live[n] < want {
			s.add("c05.rebuild", "rebuilt-clock-below-stored-maximum"+sigSuffix, "%s, clock %s is %d, below the maximum %d stored in the local bugs", when, n, live[n], want)
		}
		if file[n] < want {
			s.add("c05.rebuild", "rebuilt-clock-file-below-stored-maximum"+sigSuffix, "%s, the persisted clock %s is %d, below the maximum %d stored in the local bugs", when, n, file[n], want)
		}
	}
	for _, d := range dags {
		m.markSeen(d)
	}
	m.delSinceID = true
	return true
}

// identNew creates a further identity on the handle (identity.NewIdentity snapshots all clocks).
func (m *model) identNew(s *step) string {
	m.nIdent++
	i, err := identity.NewIdentity(m.repo, fmt.Sprintf("another user %d", m.nIdent), fmt.Sprintf("another%d@example.org", m.nIdent))
	if err != nil {
		s.add("c05.usable", "identity-create-fails", "%v", err)
		return "create-error"
	}
	if err := i.Commit(m.repo); err != nil {
		s.add("c05.usable", "identity-commit-fails", "%v", err)
		return "commit-error"
	}
	return "ok"
}

func (m *model) identMut(s *step) string {
	m.nIdent++
	u, err := m.user()
	if err != nil {
		s.add("c05.readback", "user-unreadable", "%v", err)
		return "unreadable"
	}
	before := u.LastModificationLamports()
	name := fmt.Sprintf("user A v%d", m.nIdent)
	if err := u.Mutate(m.repo, func(mu *identity.Mutator) { mu.Name = name }); err != nil {
		s.add("c05.usable", "identity-mutate-fails", "%v", err)
		return "mutate-error"
	}
	if err := u.Commit(m.repo); err != nil {
		// With a clock file deleted under the open handle the new version lists fewer clocks than
		// its predecessor and identity validation refuses it. The statement of C05 says nothing
		// about identities in that situation: nothing was written, every outcome is accepted.
		for _, n := range []string{editClock, createClock} {
			if _, serr := os.Stat(filepath.Join(m.gitdir, world.Namespace, "clocks", n)); serr != nil && !m.p.Mem {
				return "refused-while-a-clock-file-is-missing"
			}
		}
		s.add("c05.usable", "identity-commit-fails", "%v", err)
		return "commit-error"
	}
	u2, err := m.user()
	if err != nil {
		s.add("c05.readback", "user-unreadable", "the identity cannot be read back after a commit: %v", err)
		return "unreadable"
	}
	after := u2.LastModificationLamports()
	if !m.delSinceID {
		for n, v := range before {
			if after[n] < v {
				s.add("c05.never-decrease", "identity-version-times-decrease", "identity version records %s=%d, its predecessor %d", n, after[n], v)
			}
		}
	}
	m.delSinceID = false
	return "ok"
}

// ---- key and state oracle ---------------------------------------------------------------------

func (m *model) Key() (string, error) {
	if m.repo == nil {
		// the repository could not be opened again (reported as a violation): a dead end
		return fmt.Sprintf("closed/%d/%d/%d", m.seenMax, m.nIdent, m.nNew), nil
	}
	live, err := m.liveClocks()
	if err != nil {
		return "", err
	}
	extra := []string{fmt.Sprint("seenMax=", m.seenMax), "live=" + renderClocks(live),
		fmt.Sprint("n=", m.nIdent, ",", m.nNew, ",", m.delSinceID)}
	if !m.p.Mem {
		return m.w.Key(extra...)
	}
	h := sha256.New()
	refs, err := world.Refs(m.repo, world.GitBugRefPrefixes...)
	if err != nil {
		return "", err
	}
	fmt.Fprintf(h, "%s\n%s\n%s\n", strings.Join(refs, "\n"), strings.Join(vctl.Counters(), ","), strings.Join(extra, "\n"))
	return hex.EncodeToString(h.Sum(nil))[:32], nil
}

// Check: the repository can read back everything it holds ("a repository can always read back
// what it writes"), and the clocks dominate what is stored locally once it has been read.
func (m *model) Check() ([]string, []xstate.Violation, error) {
	var viol []xstate.Violation
	if m.repo == nil {
		return []string{"closed"}, nil, nil
	}
	vctl.SetActor("check")
	ids, err := world.LocalBugIds(m.repo)
	if err != nil {
		return nil, nil, err
	}
	for _, id := range ids {
		if _, err := bug.Read(m.repo, id); err != nil {
			viol = append(viol, xstate.Violation{Oracle: "c05.readback", Sig: "state-unreadable",
				Detail: fmt.Sprintf("bug %s cannot be read back: %v", id, err)})
		}
	}
	live, err := m.liveClocks()
	if err != nil {
		return nil, nil, err
	}
	tags := []string{fmt.Sprintf("edit-clock=%d", live[editClock]), fmt.Sprintf("local-bugs=%d", len(ids))}
	return tags, viol, nil
}

func statusName(s entity.MergeStatus) string {
	switch s {
	case entity.MergeStatusNew:
		return "new"
	case entity.MergeStatusUpdated:
		return "updated"
	case entity.MergeStatusNothing:
		return "nothing"
	case entity.MergeStatusInvalid:
		return "invalid"
	}
	return "error"
}
