// Package c13 decides property C13: id prefixes and combined comment ids resolve to exactly the
// right target.
//
// Three exhaustively enumerated spaces, every element executed on the real git-bug code:
//
//	(a) entity.CombineIds / entity.SeparateIds: every prefix length 0..64 of combined ids built from
//	    ids whose characters encode their own position (the functions depend on positions only);
//	(b) prefix resolution over engineered populations: every set of 1..4 ids out of {a,b}^4 padded
//	    to 64 characters (2516 sets), planted as excerpts of a real RepoCache through its cache file
//	    and index, every prefix of length 0..5 (and non-matching variants) of every id, for bugs and
//	    identities;
//	(c) real bugs and identities whose ids were mined (deterministic nonces) to share 1..3 leading
//	    hex characters, with 1..5 comments whose operation ids were mined the same way (across bugs and inside one bug): every prefix
//	    length 0..64 of every id through ResolvePrefix/ResolveExcerptPrefix and of every comment's
//	    combined id (and crossed / perturbed variants) through ResolveComment; and the command-layer
//	    resolver _select.Resolve for every selection state x every prefix of every bug id;
//	(d) growing populations behind one long-lived cache: entities with mined shared prefixes arrive
//	    (created through the cache, pulled) and leave in every order, resolutions interleaved at every
//	    subset of positions.
package c13

import (
	"encoding/json"
	"flag"
	"fmt"
	"os"
	"sort"
	"sync"
	"time"

	"verifharness/evidence"
	"verifharness/world"
)

// finding is one violation observed by a part; equal Oracle|Sig are reported once.
type finding struct {
	Oracle string
	Sig    string
	Detail string
	Replay map[string]any
}

type collector struct {
	mu    sync.Mutex
	first map[string]finding
	count map[string]int
	order []string
}

func newCollector() *collector {
	return &collector{first: map[string]finding{}, count: map[string]int{}}
}

func (c *collector) add(f finding) {
	c.mu.Lock()
	defer c.mu.Unlock()
	k := f.Oracle + "|" + f.Sig
	if _, ok := c.first[k]; !ok {
		c.first[k] = f
		c.order = append(c.order, k)
	} else if less(f.Replay, c.first[k].Replay) {
		// keep the smallest instance so that the reported counterexample does not depend on scheduling
		c.first[k] = f
	}
	c.count[k]++
}

func less(a, b map[string]any) bool {
	ja, _ := json.Marshal(a)
	jb, _ := json.Marshal(b)
	if len(ja) != len(jb) {
		return len(ja) < len(jb)
	}
	return string(ja) < string(jb)
}

func (c *collector) flush(rep *evidence.Reporter) {
	keys := append([]string{}, c.order...)
	sort.Strings(keys)
	for _, k := range keys {
		f := c.first[k]
		rep.Report(evidence.Report{Oracle: f.Oracle, Sig: f.Sig, Detail: f.Detail, Replay: f.Replay, Count: c.count[k]})
	}
}

type partResult struct {
	Inputs   int            // distinct inputs of the part's space
	Calls    int            // executions of real code compared with the reference
	Outcomes map[string]int // per-verdict counts (non-vacuity)
	Samples  []any
	Extra    map[string]any
	Err      error // harness error
}

func merge(dst map[string]int, src map[string]int, prefix string) {
	for k, v := range src {
		dst[prefix+k] += v
	}
}

// Main is the entry point of `harness C13`.
func Main(args []string) {
	fs := flag.NewFlagSet("C13", flag.ExitOnError)
	replay := fs.String("replay", "", "replay file")
	only := fs.String("only", "", "run only part a, b, c or d (debugging; evidence says so)")
	fs.Parse(args)

	scratch := world.ScratchRoot()
	defer os.RemoveAll(scratch)
	world.IsolateEnv(scratch)

	if *replay != "" {
		code := runReplay(*replay, scratch)
		os.RemoveAll(scratch)
		os.Exit(code)
	}

	tier := evidence.Tier()
	seed := uint64(evidence.Seed())
	rep := evidence.NewReporter("C13")
	col := newCollector()
	start := time.Now()

	realPops, engMax, growEntities, growEvents := 8, 4, 3, 3
	if tier == "thorough" {
		realPops, engMax, growEntities, growEvents = 32, 5, 4, 4
	}

	outcomes := map[string]int{}
	var samples []any
	parts := map[string]any{}
	inputs, calls := 0, 0
	harnessErr := false
	run := func(name string, f func() partResult) {
		if *only != "" && *only != name {
			return
		}
		t0 := time.Now()
		r := f()
		if r.Err != nil {
			fmt.Fprintf(os.Stderr, "harness error: part %s: %v\n", name, r.Err)
			harnessErr = true
		}
		inputs += r.Inputs
		calls += r.Calls
		merge(outcomes, r.Outcomes, name+":")
		samples = append(samples, r.Samples...)
		info := map[string]any{"inputs": r.Inputs, "calls_compared": r.Calls, "wall_s": time.Since(t0).Seconds()}
		for k, v := range r.Extra {
			info[k] = v
		}
		parts[name] = info
		fmt.Fprintf(os.Stderr, "== C13 part %s: inputs=%d calls=%d (%.1fs)\n", name, r.Inputs, r.Calls, time.Since(t0).Seconds())
	}
	run("a", func() partResult { return partA(col) })
	run("b", func() partResult { return partB(col, scratch, engMax) })
	run("c", func() partResult { return partC(col, scratch, seed, realPops) })
	run("d", func() partResult { return partD(col, scratch, seed, growEntities, growEvents) })

	col.flush(rep)

	cov := map[string]any{
		"states":                        inputs,
		"transitions":                   calls,
		"traces_validated_against_impl": calls,
		"evaluations":                   calls,
		"distinct_nontrivial":           inputs,
		"exhaustive":                    *only == "" && !harnessErr,
		"rule": "states = distinct inputs (id pair, prefix length) for (a), (population, prefix) for (b) and (c); transitions = calls of the real " +
			"functions (SeparateIds, ResolveExcerptPrefix, ResolvePrefix, ResolveComment, _select.Resolve) each compared with the reference computed from the " +
			"population by plain string-prefix matching; an input is non-trivial when distinct by (population, prefix)",
		"parts":             parts,
		"outcomes":          outcomes,
		"distinct_outcomes": len(outcomes),
		"samples":           samples,
	}
	if *only != "" {
		cov["only_part"] = *only
	}
	ev := evidence.Evidence{PropertyID: "C13", Tier: tier, Seed: int(seed), Level: "model_checking", Coverage: cov,
		Assumptions: []string{
			"(a) CombineIds/SeparateIds depend on character positions only, so ids whose characters encode their position decide them for all id values (hex and degenerate ids are run as well)",
			"(b) engineered excerpts are planted through the cache file (gob of the exported excerpt types) and the index of a real repository; the cache is checked to have loaded exactly the planted population without rebuilding; ids are {a,b}^4 padded with '0' to 64 characters, at most 4 per population (thorough: 5)",
			"(c) reduced space: real populations of 6 bugs (three sharing 3 leading hex characters, one sharing 2, one sharing 1, one sharing none) with 1..5 comments (one bug holds comments whose operation ids share exactly 1, 2 and 3 leading characters) and 3 identities (sharing 2 and 1 leading characters), found by mining with the deterministic nonce seam; thorough runs more such populations",
			"a prefix matched by several comments (of one bug or of several) does not identify a single comment: any error is accepted, a successful resolution is a violation",
			"the error type for an unknown comment is not fixed by the statement (any error accepted)",
			"(d) growing populations: one long-lived RepoCache per run; a pool of 3 (thorough 4) real bugs, and separately of 3 (4) real identities, with mined shared prefixes (two share 3 leading characters, the others 2) arrives by Bugs().NewRaw / Identities().NewRaw (ids reproduced through the nonce seam) and by pull (Fetch+MergeAll from a remote holding exactly that entity) and leaves by Remove; all event sequences of 3 (4) events x every set of positions after which everything is resolved (the last always); the reference is 0/1/many over the population at that moment; for bugs the events include editing a comment of a present bug through the cache (create comment first, then the last comment; at most twice per bug), after which everything is also resolved through a reopened cache",
			"a comment is identified by the operation that CREATED it: its true combined id is CombineIds(bug id, id of the create / add-comment operation), whatever edits follow; in the real populations 7 edits (create comment and later comments, once and twice, by the author and by others) are made through the cache, each addressed by the true combined id; the edited bug's comments are re-resolved after every edit, everything after the last edit and once more through a reopened cache; a cache that does not find a comment to edit under its true combined id is a violation",
			"command layer (_select.Resolve as commands/bug calls it, on the real populations, every selection state x every prefix): a first argument that is some bug's prefix is resolved like ResolvePrefix whatever is selected (one -> that bug and the remaining arguments, several -> multiple-match error listing exactly them); an argument that is no bug's prefix, or no argument, falls back to the selection as the function documents (selected bug with the arguments untouched; nothing selected -> no-valid-id error; selection of a missing bug -> no-valid-id error and the selection cleared); the empty string as argument is a prefix like any other",
		},
		WallS: time.Since(start).Seconds(), Violations: rep.Viol, Known: rep.KnownSeen()}
	if err := ev.Write(); err != nil {
		fmt.Fprintln(os.Stderr, "harness error: cannot write evidence:", err)
		os.RemoveAll(scratch)
		os.Exit(2)
	}
	fmt.Printf("C13: inputs=%d calls=%d distinct_outcomes=%d violations=%d wall=%.1fs\n", inputs, calls, len(outcomes), rep.Viol, time.Since(start).Seconds())
	os.RemoveAll(scratch)
	if harnessErr && rep.Viol == 0 {
		os.Exit(2)
	}
	rep.Exit()
}

func runReplay(path, scratch string) int {
	b, err := os.ReadFile(path)
	if err != nil {
		fmt.Fprintln(os.Stderr, err)
		return 2
	}
	var f struct {
		Oracle string         `json:"oracle"`
		Sig    string         `json:"sig"`
		Replay map[string]any `json:"replay"`
	}
	if err := json.Unmarshal(b, &f); err != nil {
		fmt.Fprintln(os.Stderr, err)
		return 2
	}
	col := newCollector()
	var herr error
	switch f.Replay["part"] {
	case "a":
		herr = replayA(col, f.Replay)
	case "b":
		herr = replayB(col, scratch, f.Replay)
	case "c":
		herr = replayC(col, scratch, f.Replay)
	case "d":
		herr = replayD(col, scratch, f.Replay)
	default:
		herr = fmt.Errorf("unknown part %v", f.Replay["part"])
	}
	if herr != nil {
		fmt.Fprintln(os.Stderr, "replay error:", herr)
		return 2
	}
	hit := false
	for k, fd := range col.first {
		fmt.Printf("  violation %s: %s\n", k, fd.Detail)
		if k == f.Oracle+"|"+f.Sig {
			hit = true
		}
	}
	if hit {
		fmt.Println("reproduced")
		return 1
	}
	fmt.Println("not reproduced")
	return 0
}

func str(m map[string]any, k string) string {
	s, _ := m[k].(string)
	return s
}

func num(m map[string]any, k string) int {
	f, _ := m[k].(float64)
	return int(f)
}

func strs(m map[string]any, k string) []string {
	l, _ := m[k].([]any)
	var out []string
	for _, x := range l {
		s, _ := x.(string)
		out = append(out, s)
	}
	return out
}
