package c13

import (
	"fmt"
	"os"
	"path/filepath"
	"sort"
	"strings"

	"github.com/MichaelMure/git-bug/cache"
	"github.com/MichaelMure/git-bug/entities/bug"
	"github.com/MichaelMure/git-bug/entities/identity"
	"github.com/MichaelMure/git-bug/entity"
	"github.com/MichaelMure/git-bug/repository"
	"github.com/MichaelMure/git-bug/verifshim/vctl"

	"verifharness/world"
)

// Part (d): growing and shrinking populations behind ONE long-lived RepoCache.
//
// A small pool of real entities with mined shared id prefixes (two share 3 leading characters,
// the others share 2 with them) arrives one by one, in every order, by the ways an entity can
// enter a cache - bugs: Bugs().NewRaw, pull (Fetch+MergeAll) from a remote; identities:
// Identities().NewRaw, pull - and leaves by Remove. All event sequences of the stated length are
// enumerated, and for each sequence every choice of the positions after which "resolve
// everything" runs (the last position always): every prefix length 0..64 of every id of the pool
// (present or not), with one-character perturbations, through ResolvePrefix, ResolveExcerptPrefix
// and, for bugs, ResolveComment, compared with the 0/1/many reference over the CURRENT population.
// An answer that was right for an earlier population must not survive an arrival or a removal.

type gEntity struct {
	Name    string // e0, e1, ...
	Mode    string // new | pull
	Id      string
	Remote  string // pull: name of the bare remote that holds exactly this entity
	Actor   string // new: the seam actor whose first nonce gives Id
	Text    string // new: bug title / identity name
	Unix    int64
	Comment []commentRef // bugs: comments of the bug
}

type gWorld struct {
	Kind     string // bugs | identities
	dir      string // fixed path (remote URLs embed it); restored from dir+".tmpl" for every run
	seed     uint64
	Ents     []gEntity
	AuthorId string
}

const growCandidates = 8000

// pickShared chooses n candidate indices: two sharing >= 3 leading characters, the rest sharing
// exactly 2 with them.
func pickShared(ids []string, n int) ([]int, error) {
	b3 := map[string][]int{}
	for i, id := range ids {
		b3[id[:3]] = append(b3[id[:3]], i)
	}
	var keys []string
	for k, l := range b3 {
		if len(l) >= 2 {
			keys = append(keys, k)
		}
	}
	sort.Strings(keys)
	for _, key := range keys {
		out := append([]int{}, b3[key][:2]...)
		for i, id := range ids {
			if len(out) < n && commonPrefix(id, key) == 2 {
				out = append(out, i)
			}
		}
		if len(out) == n {
			return out, nil
		}
	}
	return nil, fmt.Errorf("no %d ids with the wanted shared prefixes among %d candidates", n, len(ids))
}

// buildGrowing mines the pool and writes the template world: repository A (with the author
// identity, its cache already built), and one bare remote per pull-type entity holding exactly
// that entity.
func buildGrowing(scratch string, seed uint64, kind string, n int) (*gWorld, error) {
	w := &gWorld{Kind: kind, dir: filepath.Join(scratch, "grow-"+kind), seed: seed}
	vctl.Activate(seed*1000+500, 0)
	vctl.SetActor("grow")
	pathA := filepath.Join(w.dir, "A")
	repoA, err := repository.InitGoGitRepo(pathA, world.Namespace)
	if err != nil {
		return nil, err
	}
	author, err := identity.NewIdentity(repoA, "author", "author@example.org")
	if err != nil {
		return nil, err
	}
	if err := author.Commit(repoA); err != nil {
		return nil, err
	}
	if err := identity.SetUserIdentity(repoA, author); err != nil {
		return nil, err
	}
	w.AuthorId = string(author.Id())

	// candidates, each drawn under its own seam actor so that the same call under that actor in a
	// fresh run gives the same nonce, hence the same id
	ids := make([]string, growCandidates)
	bugs := make([]*bug.Bug, growCandidates)
	idents := make([]*identity.Identity, growCandidates)
	actor := func(j int) string { return fmt.Sprintf("grow/%s/%d", kind, j) }
	text := func(j int) string { return fmt.Sprintf("growing %s %d", kind, j) }
	for j := 0; j < growCandidates; j++ {
		vctl.SetActor(actor(j))
		if kind == "bugs" {
			b, _, err := bug.Create(author, baseUnix+int64(j), text(j), "first comment", nil, nil)
			if err != nil {
				return nil, err
			}
			bugs[j], ids[j] = b, string(b.Id())
		} else {
			i, err := identity.NewIdentityFull(repoA, text(j), "grow@example.org", "", "", nil)
			if err != nil {
				return nil, err
			}
			idents[j], ids[j] = i, string(i.Id())
		}
	}
	chosen, err := pickShared(ids, n)
	if err != nil {
		return nil, err
	}
	// arrival modes: e0 new, e1 pull (3 characters in common with e0), e2 pull, e3 new
	modes := []string{"new", "pull", "pull", "new"}
	vctl.SetActor("grow")
	for k, j := range chosen {
		e := gEntity{Name: fmt.Sprintf("e%d", k), Mode: modes[k], Id: ids[j], Actor: actor(j), Text: text(j), Unix: baseUnix + int64(j)}
		if kind == "bugs" {
			e.Comment = []commentRef{{Bug: e.Id, OpId: e.Id, Combined: string(entity.CombineIds(entity.Id(e.Id), entity.Id(e.Id)))}}
		}
		if e.Mode == "pull" {
			e.Remote = fmt.Sprintf("R%d", k)
			remotePath := filepath.Join(w.dir, e.Remote)
			if _, err := repository.InitBareGoGitRepo(remotePath, world.Namespace); err != nil {
				return nil, err
			}
			url := world.Scheme + "://" + remotePath
			if err := repoA.AddRemote(e.Remote, url); err != nil {
				return nil, err
			}
			feeder, err := repository.InitGoGitRepo(filepath.Join(scratch, "grow-feed-"+kind, e.Remote), world.Namespace)
			if err != nil {
				return nil, err
			}
			if err := feeder.AddRemote(e.Remote, url); err != nil {
				return nil, err
			}
			if kind == "bugs" {
				if k == 1 { // a second comment on one pulled bug
					_, op, err := bug.AddComment(bugs[j], author, e.Unix+1, "second comment", nil, nil)
					if err != nil {
						return nil, err
					}
					e.Comment = append(e.Comment, commentRef{Bug: e.Id, OpId: string(op.Id()), Combined: string(entity.CombineIds(entity.Id(e.Id), op.Id()))})
				}
				if err := bugs[j].Commit(feeder); err != nil {
					return nil, err
				}
				if _, err := bug.Push(feeder, e.Remote); err != nil {
					return nil, err
				}
			} else {
				if err := idents[j].Commit(feeder); err != nil {
					return nil, err
				}
				if _, err := identity.Push(feeder, e.Remote); err != nil {
					return nil, err
				}
			}
			if err := feeder.Close(); err != nil {
				return nil, err
			}
		}
		w.Ents = append(w.Ents, e)
	}
	// let the cache of A be built once, so that runs load it
	c, err := cache.NewRepoCacheNoEvents(repoA)
	if err != nil {
		return nil, err
	}
	if err := c.Close(); err != nil {
		return nil, err
	}
	_ = os.RemoveAll(w.dir + ".tmpl")
	if err := world.CopyTree(w.dir, w.dir+".tmpl"); err != nil {
		return nil, err
	}
	return w, nil
}

// sequences enumerates every event sequence of exactly `length` events (shorter when nothing
// more can happen): "+k" entity k arrives (once), "-k" a present entity k is removed (for good).
func (w *gWorld) sequences(length int) [][]string {
	var out [][]string
	n := len(w.Ents)
	// "*k" (bugs only): a comment of the present bug k is edited through the cache, addressed by its
	// true combined id: the first edit of a bug goes to its create comment, the second to its last
	// comment (the same one when it has only one); at most two edits per bug
	var rec func(seq []string, arrived, removed uint, edits [8]int)
	rec = func(seq []string, arrived, removed uint, edits [8]int) {
		if len(seq) == length {
			out = append(out, append([]string{}, seq...))
			return
		}
		more := false
		for k := 0; k < n; k++ {
			bit := uint(1) << k
			if arrived&bit == 0 {
				more = true
				rec(append(seq, fmt.Sprintf("+%d", k)), arrived|bit, removed, edits)
			} else if removed&bit == 0 {
				more = true
				rec(append(seq, fmt.Sprintf("-%d", k)), arrived, removed|bit, edits)
				if w.Kind == "bugs" && edits[k] < 2 {
					e2 := edits
					e2[k]++
					rec(append(seq, fmt.Sprintf("*%d", k)), arrived, removed, e2)
				}
			}
		}
		if !more {
			out = append(out, append([]string{}, seq...))
		}
	}
	rec(nil, 0, 0, [8]int{})
	return out
}

func (w *gWorld) apis() []string {
	if w.Kind == "bugs" {
		return []string{"bug.ResolveExcerptPrefix", "bug.ResolvePrefix"}
	}
	return []string{"identity.ResolveExcerptPrefix", "identity.ResolvePrefix"}
}

type gRun struct {
	w       *gWorld
	c       *cache.RepoCache
	present map[int]bool
	edits   map[int]int
	refused string // set by an edit the cache refused: the comment was not found under its true combined id
	// earlier[api][prefix] = answer given at an earlier resolve step of this run when it was right
	earlier map[string]map[string]string
}

func (w *gWorld) start() (*gRun, error) {
	vctl.Activate(w.seed*1000+500, 0) // same seed as the mining: the ids created through the cache depend on it
	vctl.SetActor("A")
	if err := os.RemoveAll(w.dir); err != nil {
		return nil, err
	}
	if err := world.CopyTree(w.dir+".tmpl", w.dir); err != nil {
		return nil, err
	}
	repo, err := repository.OpenGoGitRepo(filepath.Join(w.dir, "A"), world.Namespace, nil)
	if err != nil {
		return nil, err
	}
	c, err := cache.NewRepoCacheNoEvents(repo)
	if err != nil {
		return nil, err
	}
	return &gRun{w: w, c: c, present: map[int]bool{}, edits: map[int]int{}, earlier: map[string]map[string]string{}}, nil
}

func (r *gRun) apply(ev string) (kind string, err error) {
	var k int
	fmt.Sscanf(ev[1:], "%d", &k)
	e := r.w.Ents[k]
	if ev[0] == '*' {
		vctl.SetActor("A")
		target := e.Comment[0]
		if r.edits[k] > 0 {
			target = e.Comment[len(e.Comment)-1]
		}
		r.edits[k]++
		bc, err := r.c.Bugs().Resolve(entity.Id(e.Id))
		if err != nil {
			return "edit", err
		}
		author, err := r.c.Identities().Resolve(entity.Id(r.w.AuthorId))
		if err != nil {
			return "edit", err
		}
		if _, err := bc.EditCommentRaw(author, e.Unix+int64(100+r.edits[k]), entity.CombinedId(target.Combined), fmt.Sprintf("edited %d", r.edits[k]), nil); err != nil {
			r.refused = fmt.Sprintf("editing comment %s of bug %s addressed by its combined id failed: %v", target.Combined[:10], e.Id[:10], err)
			return "edit", nil
		}
		return "edit", bc.Commit()
	}
	if ev[0] == '-' {
		vctl.SetActor("A")
		if r.w.Kind == "bugs" {
			err = r.c.Bugs().Remove(e.Id)
		} else {
			err = r.c.Identities().Remove(e.Id)
		}
		delete(r.present, k)
		return "remove", err
	}
	r.present[k] = true
	if e.Mode == "pull" {
		vctl.SetActor("A")
		return "pull", r.c.Pull(e.Remote)
	}
	vctl.SetActor(e.Actor)
	got := ""
	if r.w.Kind == "bugs" {
		author, err := r.c.Identities().Resolve(entity.Id(r.w.AuthorId))
		if err != nil {
			return "new", err
		}
		b, _, err := r.c.Bugs().NewRaw(author, e.Unix, e.Text, "first comment", nil, nil)
		if err != nil {
			return "new", err
		}
		got = string(b.Id())
	} else {
		i, err := r.c.Identities().NewRaw(e.Text, "grow@example.org", "", "", nil, nil)
		if err != nil {
			return "new", err
		}
		got = string(i.Id())
	}
	if got != e.Id {
		return "new", fmt.Errorf("entity %s created through the cache has id %s, the mined id is %s", e.Name, got, e.Id)
	}
	return "new", nil
}

func (r *gRun) population() (ids []string, comments []commentRef) {
	for k, e := range r.w.Ents {
		if r.present[k] {
			ids = append(ids, e.Id)
			comments = append(comments, e.Comment...)
		}
	}
	if r.w.Kind == "identities" {
		ids = append(ids, r.w.AuthorId)
	}
	sort.Strings(ids)
	return
}

func (w *gWorld) poolIds() []string {
	var ids []string
	for _, e := range w.Ents {
		ids = append(ids, e.Id)
	}
	if w.Kind == "identities" {
		ids = append(ids, w.AuthorId)
	}
	return ids
}

// resolveAll compares every resolution with the reference over the current population.
func (r *gRun) resolveAll(col *collector, seq []string, at []int, pos int, lastKind string, onlyApi, onlyPrefix string, out map[string]int) (inputs, calls int) {
	ids, comments := r.population()
	rp := func(api, prefix string) map[string]any {
		return map[string]any{"part": "d", "seed": r.w.seed, "kind": r.w.Kind, "entities": len(r.w.Ents), "events": seq, "resolve_after": at, "api": api, "prefix": prefix}
	}
	where := func() string {
		var names []string
		for k, e := range r.w.Ents {
			if r.present[k] {
				names = append(names, e.Name+"="+e.Id[:8])
			}
		}
		return fmt.Sprintf("growing %s population, events %v, resolving after %v, now after event %d (%s) with %v present", r.w.Kind, seq, at, pos, seq[pos], names)
	}
	for _, pre := range idPrefixes(r.w.poolIds()) {
		if onlyApi != "" && pre != onlyPrefix {
			continue
		}
		exp := matching(ids, pre)
		counted := false
		for _, api := range r.w.apis() {
			if onlyApi != "" && api != onlyApi {
				continue
			}
			if !counted {
				inputs++
				counted = true
			}
			got, err, pan := resolveCall(r.c, api, pre)
			calls++
			sig, detail := judge(exp, got, err, pan)
			if r.earlier[api] == nil {
				r.earlier[api] = map[string]string{}
			}
			if sig == "" {
				if err == nil {
					r.earlier[api][pre] = got
				} else {
					delete(r.earlier[api], pre)
				}
				out[fmt.Sprintf("%d-match ok after %s", min(len(exp), 2), lastKind)]++
				continue
			}
			if err == nil && got != "" && r.earlier[api][pre] == got {
				switch sig {
				case "ambiguous-prefix-resolved":
					sig = "stale-unique-answer"
				default:
					sig = "stale-" + sig
				}
				detail += " (the answer an earlier resolution of this prefix gave, rightly, for the population of that time)"
			}
			col.add(finding{"growing-population", fmt.Sprintf("growing-population/%s:%s/after-%s", api, sig, lastKind),
				fmt.Sprintf("%s: %s(%q): %s", where(), api, pre, detail), rp(api, pre)})
			out["VIOLATION "+sig]++
		}
	}
	if r.w.Kind == "bugs" && (onlyApi == "" || onlyApi == "bug.ResolveComment") {
		set := map[string]bool{}
		for _, e := range r.w.Ents {
			for _, c := range e.Comment {
				for l := 0; l <= len(c.Combined); l++ {
					set[c.Combined[:l]] = true
					if l > 0 {
						set[c.Combined[:l-1]+string(nextHex(c.Combined[l-1]))] = true
					}
				}
			}
		}
		for _, pre := range sortedByLen(set) {
			if onlyApi != "" && pre != onlyPrefix {
				continue
			}
			inputs++
			var exp []commentRef
			for _, c := range comments {
				if strings.HasPrefix(c.Combined, pre) {
					exp = append(exp, c)
				}
			}
			b, cid, err, pan := resolveComment(r.c, pre)
			calls++
			if sig, detail := judgeComment(exp, b, cid, err, pan); sig != "" {
				col.add(finding{"growing-population", fmt.Sprintf("growing-population/bug.ResolveComment:%s/after-%s", sig, lastKind),
					fmt.Sprintf("%s: ResolveComment(%q): %s", where(), pre, detail), rp("bug.ResolveComment", pre)})
				out["VIOLATION comment "+sig]++
			} else {
				out[fmt.Sprintf("comment %d-match ok after %s", min(len(exp), 2), lastKind)]++
			}
		}
	}
	return
}

// runOne executes one event sequence with resolutions after the positions in at.
func (w *gWorld) runOne(col *collector, seq []string, at []int, onlyApi, onlyPrefix string, out map[string]int) (inputs, calls int, err error) {
	r, err := w.start()
	if err != nil {
		return 0, 0, err
	}
	defer func() { r.c.Close() }()
	atSet := map[int]bool{}
	for _, p := range at {
		atSet[p] = true
	}
	for pos, ev := range seq {
		kind, err := r.apply(ev)
		if err != nil {
			return inputs, calls, fmt.Errorf("events %v, event %d (%s): %w", seq, pos, ev, err)
		}
		if r.refused != "" {
			if onlyApi == "" || onlyApi == "bug.EditComment" {
				col.add(finding{"growing-population", "growing-population/bug.EditComment:true-combined-id-not-found/after-edit",
					fmt.Sprintf("growing bugs population, events %v, event %d (%s): %s", seq, pos, ev, r.refused),
					map[string]any{"part": "d", "seed": w.seed, "kind": w.Kind, "entities": len(w.Ents), "events": seq[:pos+1], "resolve_after": []int{pos}, "api": "bug.EditComment", "prefix": ""}})
				out["VIOLATION edit refused"]++
			}
			r.refused = ""
		}
		if atSet[pos] {
			i, c := r.resolveAll(col, seq, at, pos, kind, onlyApi, onlyPrefix, out)
			inputs += i
			calls += c
		}
	}
	// once more through a cache reopened from its files (sequences with an edited comment)
	if w.Kind == "bugs" && strings.Contains(strings.Join(seq, ""), "*") {
		if err := r.c.Close(); err != nil {
			return inputs, calls, err
		}
		repo, err := repository.OpenGoGitRepo(filepath.Join(w.dir, "A"), world.Namespace, nil)
		if err != nil {
			return inputs, calls, err
		}
		if r.c, err = cache.NewRepoCacheNoEvents(repo); err != nil {
			return inputs, calls, err
		}
		r.earlier = map[string]map[string]string{}
		i, c := r.resolveAll(col, seq, at, len(seq)-1, "reopen", onlyApi, onlyPrefix, out)
		inputs += i
		calls += c
	}
	return
}

// positionSets: every subset of the positions 0..n-1 that contains the last one.
func positionSets(n int) [][]int {
	var out [][]int
	for m := 0; m < 1<<(n-1); m++ {
		var s []int
		for p := 0; p < n-1; p++ {
			if m&(1<<p) != 0 {
				s = append(s, p)
			}
		}
		out = append(out, append(s, n-1))
	}
	return out
}

func partD(col *collector, scratch string, seed uint64, entities, length int) partResult {
	r := partResult{Outcomes: map[string]int{}, Extra: map[string]any{"entities_per_kind": entities, "events_per_sequence": length}}
	for _, kind := range []string{"bugs", "identities"} {
		w, err := buildGrowing(scratch, seed, kind, entities)
		if err != nil {
			r.Err = fmt.Errorf("growing %s: %w", kind, err)
			return r
		}
		seqs := w.sequences(length)
		runs := 0
		for _, seq := range seqs {
			for _, at := range positionSets(len(seq)) {
				in, calls, err := w.runOne(col, seq, at, "", "", r.Outcomes)
				if err != nil {
					r.Err = fmt.Errorf("growing %s: %w", kind, err)
					return r
				}
				runs++
				r.Inputs += in
				r.Calls += calls
			}
		}
		var pool []string
		for _, e := range w.Ents {
			pool = append(pool, fmt.Sprintf("%s %s %s", e.Name, e.Mode, e.Id[:10]))
		}
		r.Extra[kind] = map[string]any{"pool": pool, "event_sequences": len(seqs), "runs_with_resolution_position_sets": runs}
		if kind == "bugs" {
			r.Samples = append(r.Samples, map[string]any{"part": "d", "kind": kind, "pool": pool, "events": seqs[len(seqs)/2], "resolve_after": positionSets(len(seqs[len(seqs)/2]))[1]})
		}
	}
	return r
}

func replayD(col *collector, scratch string, m map[string]any) error {
	w, err := buildGrowing(scratch, uint64(num(m, "seed")), str(m, "kind"), num(m, "entities"))
	if err != nil {
		return err
	}
	var at []int
	if l, ok := m["resolve_after"].([]any); ok {
		for _, x := range l {
			f, _ := x.(float64)
			at = append(at, int(f))
		}
	}
	_, _, err = w.runOne(col, strs(m, "events"), at, str(m, "api"), str(m, "prefix"), map[string]int{})
	return err
}
