package c13

import (
	"crypto/sha256"
	"fmt"
	"strings"

	"github.com/MichaelMure/git-bug/entity"
)

// idPair is one (primary, secondary) input of part (a).
type idPair struct {
	Name string
	P, S string
}

func positionIds() (string, string) {
	var p, s [64]byte
	for i := 0; i < 64; i++ {
		p[i] = byte(i)      // primary: byte value = position
		s[i] = byte(64 + i) // secondary: byte value = 64 + position
	}
	return string(p[:]), string(s[:])
}

func hexOf(s string) string { return fmt.Sprintf("%x", sha256.Sum256([]byte(s))) }

func idPairs() []idPair {
	p, s := positionIds()
	h1, h2 := hexOf("primary"), hexOf("secondary")
	return []idPair{
		{"position-encoding", p, s},
		{"position-encoding swapped", s, p},
		{"hex", h1, h2},
		{"same id twice (a bug's first comment)", h1, h1},
		{"all zero / all f", strings.Repeat("0", 64), strings.Repeat("f", 64)},
	}
}

func safeCombine(p, s string) (c string, panicked any) {
	defer func() { panicked = recover() }()
	return string(entity.CombineIds(entity.Id(p), entity.Id(s))), nil
}

func safeSeparate(prefix string) (pp, sp string, panicked any) {
	defer func() { panicked = recover() }()
	pp, sp = entity.SeparateIds(prefix)
	return
}

// checkPair runs every prefix length 0..64 of CombineIds(P,S) through SeparateIds. The oracle is
// the statement: every prefix of the combined id splits into a prefix of each part (and nothing
// else: the two lengths add up to the prefix length).
func checkPair(col *collector, pr idPair, onlyL int, out map[string]int) (calls int) {
	rp := func(l int) map[string]any {
		return map[string]any{"part": "a", "pair": pr.Name, "primary": fmt.Sprintf("%q", pr.P), "secondary": fmt.Sprintf("%q", pr.S), "len": l}
	}
	c, pan := safeCombine(pr.P, pr.S)
	calls++
	if pan != nil {
		col.add(finding{"interleave", "combine-panic", fmt.Sprintf("CombineIds panicked on %s: %v", pr.Name, pan), rp(64)})
		out["combine-panic"]++
		return
	}
	if len(c) != 64 {
		col.add(finding{"interleave", "combined-length", fmt.Sprintf("CombineIds(%s) has length %d, want 64", pr.Name, len(c)), rp(64)})
		out["combined-length"]++
		return
	}
	for l := 0; l <= 64; l++ {
		if onlyL >= 0 && l != onlyL {
			continue
		}
		pp, sp, pan := safeSeparate(c[:l])
		calls++
		switch {
		case pan != nil:
			col.add(finding{"interleave", "separate-panic", fmt.Sprintf("SeparateIds panicked on the %d-prefix of %s: %v", l, pr.Name, pan), rp(l)})
			out["separate-panic"]++
		case !strings.HasPrefix(pr.P, pp):
			col.add(finding{"interleave", "primary-part-not-a-prefix", fmt.Sprintf("%s: the %d-prefix of the combined id gives primary part %q which is not a prefix of the primary id %q", pr.Name, l, pp, pr.P), rp(l)})
			out["primary-part-not-a-prefix"]++
		case !strings.HasPrefix(pr.S, sp):
			col.add(finding{"interleave", "secondary-part-not-a-prefix", fmt.Sprintf("%s: the %d-prefix of the combined id gives secondary part %q which is not a prefix of the secondary id %q", pr.Name, l, sp, pr.S), rp(l)})
			out["secondary-part-not-a-prefix"]++
		case len(pp)+len(sp) != l:
			col.add(finding{"interleave", "parts-lose-characters", fmt.Sprintf("%s: the %d-prefix splits into %d+%d characters", pr.Name, l, len(pp), len(sp)), rp(l)})
			out["parts-lose-characters"]++
		default:
			out[fmt.Sprintf("ok split %02d", l)] = len(pp)*100 + len(sp) // informative: the observed split per length
			out["ok"]++
		}
	}
	if onlyL < 0 || onlyL == 64 {
		ci := entity.CombinedId(c)
		calls++
		if !strings.HasPrefix(pr.P, ci.PrimaryPrefix()) || !strings.HasPrefix(pr.S, ci.SecondaryPrefix()) || len(ci.PrimaryPrefix())+len(ci.SecondaryPrefix()) != 64 {
			col.add(finding{"interleave", "prefix-helpers", fmt.Sprintf("%s: PrimaryPrefix/SecondaryPrefix of the full combined id are %q / %q", pr.Name, ci.PrimaryPrefix(), ci.SecondaryPrefix()), rp(64)})
			out["prefix-helpers"]++
		}
	}
	return
}

// checkPositions compares, position by position, where CombineIds takes the character of a
// position from with where SeparateIds sends the character at that position (64 single-marker
// strings): same part, same offset inside the part.
func checkPositions(col *collector, onlyPos int, out map[string]int) (calls int) {
	p, s := positionIds()
	c, pan := safeCombine(p, s)
	if pan != nil || len(c) != 64 {
		return 0 // reported by checkPair
	}
	for i := 0; i < 64; i++ {
		if onlyPos >= 0 && i != onlyPos {
			continue
		}
		marker := []byte(strings.Repeat("x", 64))
		marker[i] = 'M'
		pp, sp, pan := safeSeparate(string(marker))
		calls++
		if pan != nil {
			continue
		}
		wantPart, wantOff := "primary", int(c[i])
		if c[i] >= 64 {
			wantPart, wantOff = "secondary", int(c[i])-64
		}
		gotPart, gotOff := "none", -1
		if k := strings.IndexByte(pp, 'M'); k >= 0 {
			gotPart, gotOff = "primary", k
		} else if k := strings.IndexByte(sp, 'M'); k >= 0 {
			gotPart, gotOff = "secondary", k
		}
		if gotPart != wantPart || gotOff != wantOff {
			col.add(finding{"interleave", "pattern-mismatch", fmt.Sprintf("position %d: CombineIds writes character %d of the %s id there, SeparateIds reads it as character %d of the %s part", i, wantOff, wantPart, gotOff, gotPart),
				map[string]any{"part": "a", "position": i}})
			out["pattern-mismatch"]++
		} else {
			out["position-ok"]++
		}
	}
	return
}

func partA(col *collector) partResult {
	out := map[string]int{}
	r := partResult{Outcomes: out}
	for _, pr := range idPairs() {
		r.Calls += checkPair(col, pr, -1, out)
		r.Inputs += 65
	}
	r.Calls += checkPositions(col, -1, out)
	r.Inputs += 64
	// the observed split per prefix length is evidence, not an outcome class
	split := map[string]string{}
	for k, v := range out {
		if strings.HasPrefix(k, "ok split ") {
			split[strings.TrimPrefix(k, "ok split ")] = fmt.Sprintf("%dP+%dS", v/100, v%100)
			delete(out, k)
		}
	}
	r.Extra = map[string]any{"id_pairs": len(idPairs()), "observed_split_by_prefix_length": split}
	p, s := positionIds()
	c, _ := safeCombine(p, s)
	pp, sp, _ := safeSeparate(c[:7])
	r.Samples = []any{map[string]any{"part": "a", "input": "position-encoding ids, prefix length 7", "combined_prefix_bytes": ints(c[:7]), "primary_part_bytes": ints(pp), "secondary_part_bytes": ints(sp),
		"reading": "primary id = bytes 0..63, secondary id = bytes 64..127, so every byte names the id and the position it came from"}}
	return r
}

func replayA(col *collector, m map[string]any) error {
	out := map[string]int{}
	if _, ok := m["position"]; ok {
		checkPositions(col, num(m, "position"), out)
		return nil
	}
	for _, pr := range idPairs() {
		if pr.Name == str(m, "pair") {
			checkPair(col, pr, num(m, "len"), out)
			return nil
		}
	}
	return fmt.Errorf("unknown id pair %q", str(m, "pair"))
}

func ints(s string) []int {
	out := make([]int, len(s))
	for i := range s {
		out[i] = int(s[i])
	}
	return out
}
