package c13

import (
	"fmt"
	"path/filepath"
	"sort"
	"strings"

	"github.com/MichaelMure/git-bug/cache"
	"github.com/MichaelMure/git-bug/entities/bug"
	"github.com/MichaelMure/git-bug/entities/identity"
	"github.com/MichaelMure/git-bug/entity"
	"github.com/MichaelMure/git-bug/repository"
	"github.com/MichaelMure/git-bug/verifshim/vctl"

	"verifharness/world"
)

const (
	bugCandidates   = 12000
	commentTries    = 400000
	identityTries   = 20000
	baseUnix        = int64(1600000000)
	realBugsPerPop  = 6
	identsPerPop    = 3
	maxSharedPrefix = 3
)

type commentRef struct {
	Bug      string
	OpId     string
	Combined string
}

// realPop is a population of real, committed bugs and identities with engineered shared prefixes.
type realPop struct {
	Seed     uint64
	K        int
	Bugs     []string
	Idents   []string
	Comments []commentRef
	Shape    string
	cache    *cache.RepoCache
	dir      string
	stage    string // before-edits, after-edit-N, after-all-edits, reopened
}

func commonPrefix(a, b string) int {
	k := 0
	for k < len(a) && k < len(b) && a[k] == b[k] {
		k++
	}
	return k
}

// buildReal mines and commits population k for the seed. Everything is deterministic: nonces come
// from the seam (vctl.Activate), the search visits candidates in a fixed order.
func buildReal(dir string, seed uint64, k int) (*realPop, error) {
	vctl.Activate(seed*1000+uint64(k), 0)
	vctl.SetActor("c13")
	repo, err := repository.InitGoGitRepo(dir, world.Namespace)
	if err != nil {
		return nil, err
	}
	pop := &realPop{Seed: seed, K: k}

	// identities: the author, one sharing 2 leading characters with it, one sharing exactly 1
	author, err := identity.NewIdentity(repo, "author", "author@example.org")
	if err != nil {
		return nil, err
	}
	aid := string(author.Id())
	mineIdent := func(name string, ok func(id string) bool) (*identity.Identity, error) {
		for j := 0; j < identityTries; j++ {
			i, err := identity.NewIdentity(repo, fmt.Sprintf("%s %d", name, j), name+"@example.org")
			if err != nil {
				return nil, err
			}
			if ok(string(i.Id())) {
				return i, nil
			}
		}
		return nil, fmt.Errorf("no identity candidate found for %s", name)
	}
	two, err := mineIdent("two", func(id string) bool { return commonPrefix(id, aid) >= 2 })
	if err != nil {
		return nil, err
	}
	one, err := mineIdent("one", func(id string) bool { return commonPrefix(id, aid) == 1 })
	if err != nil {
		return nil, err
	}
	for _, i := range []*identity.Identity{author, two, one} {
		if err := i.Commit(repo); err != nil {
			return nil, err
		}
		pop.Idents = append(pop.Idents, string(i.Id()))
	}
	if err := identity.SetUserIdentity(repo, author); err != nil {
		return nil, err
	}

	// bug candidates, in memory
	type cand struct {
		b  *bug.Bug
		id string
	}
	cands := make([]cand, 0, bugCandidates)
	buckets := map[string][]int{}
	for j := 0; j < bugCandidates; j++ {
		b, _, err := bug.Create(author, baseUnix+int64(j), fmt.Sprintf("mined bug %d", j), "first comment", nil, nil)
		if err != nil {
			return nil, err
		}
		id := string(b.Id())
		cands = append(cands, cand{b, id})
		buckets[id[:maxSharedPrefix]] = append(buckets[id[:maxSharedPrefix]], j)
	}
	var keys []string
	for key, l := range buckets {
		if len(l) >= 3 {
			keys = append(keys, key)
		}
	}
	sort.Strings(keys)
	if len(keys) == 0 {
		return nil, fmt.Errorf("no three bug ids share %d leading characters among %d candidates", maxSharedPrefix, bugCandidates)
	}
	key := keys[(k*7)%len(keys)]
	x := buckets[key][:3]
	first := func(ok func(id string) bool) (int, error) {
		for j, c := range cands {
			if ok(c.id) {
				return j, nil
			}
		}
		return 0, fmt.Errorf("no bug candidate with the wanted prefix relation to %s", key)
	}
	d2, err := first(func(id string) bool { return commonPrefix(id, key) == 2 })
	if err != nil {
		return nil, err
	}
	d1, err := first(func(id string) bool { return commonPrefix(id, key) == 1 })
	if err != nil {
		return nil, err
	}
	d0, err := first(func(id string) bool { return commonPrefix(id, key) == 0 })
	if err != nil {
		return nil, err
	}
	chosen := []*bug.Bug{cands[x[0]].b, cands[x[1]].b, cands[x[2]].b, cands[d2].b, cands[d1].b, cands[d0].b}

	// comments: operation ids mined to collide with other comments' secondary parts
	nMsg := 0
	mineComment := func(who identity.Interface, want string) (*bug.AddCommentOperation, error) {
		for j := 0; j < commentTries; j++ {
			nMsg++
			op := bug.NewAddCommentOp(who, baseUnix+int64(nMsg), fmt.Sprintf("comment %d", nMsg), nil)
			if strings.HasPrefix(string(op.Id()), want) {
				return op, nil
			}
		}
		return nil, fmt.Errorf("no comment operation id with prefix %q found", want)
	}
	x1, x2, x3, bd2, bd1, bd0 := chosen[0], chosen[1], chosen[2], chosen[3], chosen[4], chosen[5]
	plan := []struct {
		b    *bug.Bug
		who  identity.Interface
		want func(free string) string
	}{
		{x1, author, func(string) string { return string(x1.Id())[:3] }}, // collides with X1's own first comment
		{x1, two, func(string) string { return "" }},                     // free: defines the secondary prefix the others aim at
		{x2, author, func(free string) string { return free[:3] }},       // same 3 secondary characters in a bug sharing 3 primary characters
		{x3, one, func(free string) string { return free[:1] }},
		{bd2, author, func(free string) string { return free[:2] }},
		{bd2, author, func(free string) string { return free[:3] }},
		{bd0, author, func(free string) string { return free[:3] }}, // same secondary, unrelated primary
	}
	free := ""
	created := map[*bug.Bug][]string{} // ids of the operations that created the later comments of a bug
	for n, st := range plan {
		op, err := mineComment(st.who, st.want(free))
		if err != nil {
			return nil, err
		}
		if n == 1 {
			free = string(op.Id())
		}
		st.b.Append(op)
		created[st.b] = append(created[st.b], string(op.Id()))
	}
	// inside ONE bug: a free comment and three more whose operation ids share exactly 1, 2 and 3
	// leading characters with it (prefixes that cover the bug and 1..3 comment characters are
	// ambiguous between comments of the same bug)
	inner, err := mineComment(author, "")
	if err != nil {
		return nil, err
	}
	bd1.Append(inner)
	created[bd1] = append(created[bd1], string(inner.Id()))
	innerId := string(inner.Id())
	for share := 1; share <= 3; share++ {
		for {
			op, err := mineComment(author, innerId[:share])
			if err != nil {
				return nil, err
			}
			if commonPrefix(string(op.Id()), innerId) == share {
				bd1.Append(op)
				created[bd1] = append(created[bd1], string(op.Id()))
				break
			}
		}
	}
	for _, b := range chosen {
		if err := b.Commit(repo); err != nil {
			return nil, err
		}
		pop.Bugs = append(pop.Bugs, string(b.Id()))
		// the reference population: a comment is identified by the operation that CREATED it (the
		// create operation, whose id is the bug's id, or an add-comment operation), whatever edits follow
		for _, opId := range append([]string{string(b.Id())}, created[b]...) {
			pop.Comments = append(pop.Comments, commentRef{Bug: string(b.Id()), OpId: opId, Combined: string(entity.CombineIds(b.Id(), entity.Id(opId)))})
		}
	}
	pop.dir = dir

	c, err := cache.NewRepoCacheNoEvents(repo)
	if err != nil {
		return nil, err
	}
	pop.cache = c
	var sh []string
	for i := range pop.Bugs {
		for j := i + 1; j < len(pop.Bugs); j++ {
			sh = append(sh, fmt.Sprint(commonPrefix(pop.Bugs[i], pop.Bugs[j])))
		}
	}
	cs := 0
	inside := map[int]bool{} // how many leading operation-id characters two comments of one bug share
	for i := range pop.Comments {
		for j := i + 1; j < len(pop.Comments); j++ {
			if pop.Comments[i].Bug == pop.Comments[j].Bug {
				inside[commonPrefix(pop.Comments[i].OpId, pop.Comments[j].OpId)] = true
				continue
			}
			if n := commonPrefix(pop.Comments[i].Combined, pop.Comments[j].Combined); n > cs {
				cs = n
			}
		}
	}
	var in []string
	for n := 0; n <= 64; n++ {
		if inside[n] {
			in = append(in, fmt.Sprint(n))
		}
	}
	for n := 1; n <= 3; n++ {
		if !inside[n] {
			return nil, fmt.Errorf("population has no two comments of one bug whose operation ids share exactly %d leading characters", n)
		}
	}
	pop.Shape = fmt.Sprintf("bug ids share %s leading characters pairwise; identities %d/%d; %d comments; longest combined-id prefix shared by comments of different bugs: %d; operation ids of comments of the same bug share %s leading characters",
		strings.Join(sh, ""), commonPrefix(pop.Idents[0], pop.Idents[1]), commonPrefix(pop.Idents[0], pop.Idents[2]), len(pop.Comments), cs, strings.Join(in, ","))
	return pop, nil
}

func nextHex(c byte) byte {
	const hex = "0123456789abcdef"
	i := strings.IndexByte(hex, c)
	return hex[(i+1)%16]
}

// commentPrefixes: every prefix length 0..64 of every comment's combined id, the same with the last
// character replaced, and every prefix of the combined ids obtained by crossing every bug id with
// every comment operation id of the population (bug part of one bug, comment part of another).
func (p *realPop) commentPrefixes() []string {
	set := map[string]bool{}
	add := func(full string) {
		for l := 0; l <= len(full); l++ {
			set[full[:l]] = true
			if l > 0 {
				set[full[:l-1]+string(nextHex(full[l-1]))] = true
			}
		}
	}
	for _, c := range p.Comments {
		add(c.Combined)
	}
	for _, b := range p.Bugs {
		for _, c := range p.Comments {
			if c.Bug != b {
				add(string(entity.CombineIds(entity.Id(b), entity.Id(c.OpId))))
			}
		}
	}
	return sortedByLen(set)
}

func sortedByLen(set map[string]bool) []string {
	var out []string
	for s := range set {
		out = append(out, s)
	}
	sort.Slice(out, func(i, j int) bool {
		if len(out[i]) != len(out[j]) {
			return len(out[i]) < len(out[j])
		}
		return out[i] < out[j]
	})
	return out
}

func idPrefixes(ids []string) []string {
	set := map[string]bool{}
	for _, id := range ids {
		for l := 0; l <= len(id); l++ {
			set[id[:l]] = true
			if l > 0 {
				set[id[:l-1]+string(nextHex(id[l-1]))] = true
			}
		}
		set[id+"0"] = true
	}
	return sortedByLen(set)
}

func resolveComment(c *cache.RepoCache, prefix string) (bugId, commentId string, err error, panicked any) {
	defer func() { panicked = recover() }()
	b, cid, err := c.Bugs().ResolveComment(prefix)
	if err == nil {
		if b != nil {
			bugId = string(b.Id())
		}
		commentId = string(cid)
	}
	return bugId, commentId, err, nil
}

// judgeComment: exactly one comment of the population has the prefix -> that comment and its bug;
// none -> an error; several (of the same bug or not) -> an error (any error), never a successful
// resolution.
func judgeComment(exp []commentRef, bugId, commentId string, err error, panicked any) (sig, detail string) {
	if panicked != nil {
		return "panic", fmt.Sprintf("panicked: %v", panicked)
	}
	switch {
	case len(exp) == 0 && err == nil:
		return "resolved-without-match", fmt.Sprintf("no comment has the prefix but comment %s of bug %s was returned", short([]string{commentId})[0], short([]string{bugId})[0])
	case len(exp) == 1 && err != nil:
		return "single-comment-not-resolved", fmt.Sprintf("exactly comment %s has the prefix; got error %q", short([]string{exp[0].Combined})[0], err)
	case len(exp) == 1 && (commentId != exp[0].Combined || bugId != exp[0].Bug):
		return "single-comment-wrong-target", fmt.Sprintf("exactly comment %s of bug %s has the prefix; got comment %s of bug %s", short([]string{exp[0].Combined})[0], short([]string{exp[0].Bug})[0], short([]string{commentId})[0], short([]string{bugId})[0])
	case len(exp) > 1 && err == nil:
		// a prefix that several comments have does not identify a single comment: resolving it
		// silently to one of them is resolving to "another" for whoever meant the other one
		same := "different bugs"
		if exp[0].Bug == exp[len(exp)-1].Bug {
			same = "the same bug"
			for _, e := range exp {
				if e.Bug != exp[0].Bug {
					same = "different bugs"
				}
			}
		}
		return "ambiguous-prefix-resolved", fmt.Sprintf("%d comments (of %s) have the prefix; comment %s of bug %s was returned without error", len(exp), same, short([]string{commentId})[0], short([]string{bugId})[0])
	}
	return "", ""
}

func (p *realPop) check(col *collector, onlyApi, onlyPrefix string, out map[string]int) (inputs, calls int) {
	return p.checkAt(col, onlyApi, onlyPrefix, "", out)
}

// checkAt: onlyBug != "" restricts the run to ResolveComment on the prefixes of that bug's comments.
func (p *realPop) checkAt(col *collector, onlyApi, onlyPrefix, onlyBug string, out map[string]int) (inputs, calls int) {
	rp := func(api, prefix string) map[string]any {
		return map[string]any{"part": "c", "seed": p.Seed, "population": p.K, "api": api, "prefix": prefix, "stage": p.stage}
	}
	if onlyBug != "" {
		onlyApi = "bug.ResolveComment"
	}
	// entity prefixes
	for _, grp := range []struct {
		ids  []string
		apis []string
	}{{p.Bugs, []string{"bug.ResolveExcerptPrefix", "bug.ResolvePrefix"}}, {p.Idents, []string{"identity.ResolveExcerptPrefix", "identity.ResolvePrefix"}}} {
		for _, pre := range idPrefixes(grp.ids) {
			if onlyApi != "" && pre != onlyPrefix {
				continue
			}
			exp := matching(grp.ids, pre)
			counted := false
			for _, api := range grp.apis {
				if onlyApi != "" && api != onlyApi {
					continue
				}
				if !counted {
					inputs++
					counted = true
				}
				got, err, pan := resolveCall(p.cache, api, pre)
				calls++
				if sig, detail := judge(exp, got, err, pan); sig != "" {
					col.add(finding{"prefix-resolution", api + ":" + sig, fmt.Sprintf("real population %d (ids %v), %s(%q): %s", p.K, short(grp.ids), api, pre, detail), rp(api, pre)})
					out["VIOLATION "+sig]++
				} else {
					out[fmt.Sprintf("entity %d-match ok", min(len(exp), 2))]++
				}
			}
		}
	}
	// comments
	if onlyApi == "" || onlyApi == "bug.ResolveComment" {
		prefixes := p.commentPrefixes()
		if onlyBug != "" {
			prefixes = p.commentPrefixesOf(onlyBug)
		}
		for _, pre := range prefixes {
			if onlyApi != "" && onlyBug == "" && pre != onlyPrefix {
				continue
			}
			if onlyBug != "" && onlyPrefix != "" && pre != onlyPrefix {
				continue
			}
			inputs++
			var exp []commentRef
			for _, c := range p.Comments {
				if strings.HasPrefix(c.Combined, pre) {
					exp = append(exp, c)
				}
			}
			b, cid, err, pan := resolveComment(p.cache, pre)
			calls++
			if sig, detail := judgeComment(exp, b, cid, err, pan); sig != "" {
				col.add(finding{"comment-resolution", sig, fmt.Sprintf("real population %d, %s, ResolveComment(%q): %s", p.K, p.stage, pre, detail), rp("bug.ResolveComment", pre)})
				out["VIOLATION "+sig]++
			} else {
				verdict := "error"
				if err == nil {
					verdict = "resolved"
				}
				out[fmt.Sprintf("comment %d-match %s ok", min(len(exp), 2), verdict)]++
			}
		}
	}
	return
}

// commentPrefixesOf: every prefix length 0..64 (and one-character perturbations) of the TRUE combined
// ids of one bug's comments.
func (p *realPop) commentPrefixesOf(bugId string) []string {
	set := map[string]bool{}
	for _, c := range p.Comments {
		if c.Bug != bugId {
			continue
		}
		for l := 0; l <= len(c.Combined); l++ {
			set[c.Combined[:l]] = true
			if l > 0 {
				set[c.Combined[:l-1]+string(nextHex(c.Combined[l-1]))] = true
			}
		}
	}
	return sortedByLen(set)
}

// commentEdit: comment number Comment (0 = the create comment) of bug number Bug is edited by
// identity number By (0 author, 1 and 2 the others) through the cache, addressed by its TRUE
// combined id.
type commentEdit struct{ Bug, Comment, By int }

// editPlan: the create comment and a later comment, edited once and twice, by the comment's author
// and by others.
var editPlan = []commentEdit{{0, 0, 1}, {1, 1, 0}, {1, 1, 2}, {4, 0, 0}, {4, 0, 1}, {4, 1, 2}, {5, 1, 0}}

func (p *realPop) commentsOf(bugId string) []commentRef {
	var out []commentRef
	for _, c := range p.Comments {
		if c.Bug == bugId {
			out = append(out, c)
		}
	}
	return out
}

// applyEdit performs one edit through the real cache. refused is set when the cache does not find
// the comment under its true combined id (a resolution failure, reported as a violation).
func (p *realPop) applyEdit(n int, e commentEdit) (refused string, err error) {
	vctl.SetActor("c13")
	bugId := p.Bugs[e.Bug]
	target := p.commentsOf(bugId)[e.Comment]
	bc, err := p.cache.Bugs().Resolve(entity.Id(bugId))
	if err != nil {
		return "", err
	}
	who, err := p.cache.Identities().Resolve(entity.Id(p.Idents[e.By]))
	if err != nil {
		return "", err
	}
	if _, err := bc.EditCommentRaw(who, baseUnix+int64(900000+n), entity.CombinedId(target.Combined), fmt.Sprintf("edited text %d", n), nil); err != nil {
		return fmt.Sprintf("editing comment %s of bug %s addressed by its combined id failed: %v", short([]string{target.Combined})[0], short([]string{bugId})[0], err), nil
	}
	return "", bc.Commit()
}

// runStages is the whole life of one real population: static checks, then every edit of the plan
// with the edited bug's comments re-resolved after each, everything re-resolved after the last,
// and once more through a reopened cache. only* restrict the run (replay).
func (p *realPop) runStages(col *collector, onlyStage, onlyApi, onlyPrefix string, out map[string]int) (inputs, calls int, err error) {
	want := func(stage string) bool { p.stage = stage; return onlyStage == "" || onlyStage == stage }
	add := func(i, c int) { inputs += i; calls += c }
	if want("before-edits") {
		add(p.checkAt(col, onlyApi, onlyPrefix, "", out))
		if onlyApi == "" {
			i, c, err := p.checkSelect(col, nil, nil, false, out)
			if err != nil {
				return inputs, calls, err
			}
			add(i, c)
		}
	}
	for n, e := range editPlan {
		refused, err := p.applyEdit(n+1, e)
		if err != nil {
			return inputs, calls, fmt.Errorf("edit %d: %w", n+1, err)
		}
		if want(fmt.Sprintf("after-edit-%d", n+1)) {
			if refused != "" {
				col.add(finding{"comment-resolution", "edit-by-true-combined-id-refused", fmt.Sprintf("real population %d, %s: %s", p.K, p.stage, refused),
					map[string]any{"part": "c", "seed": p.Seed, "population": p.K, "api": "bug.ResolveComment", "prefix": "", "stage": p.stage}})
				out["VIOLATION edit refused"]++
			}
			if onlyApi == "" || onlyApi == "bug.ResolveComment" {
				add(p.checkAt(col, "", onlyPrefix, p.Bugs[e.Bug], out))
			}
		}
	}
	if want("after-all-edits") && (onlyApi == "" || onlyApi == "bug.ResolveComment") {
		add(p.checkAt(col, "bug.ResolveComment", onlyPrefix, "", out))
	}
	if err := p.cache.Close(); err != nil {
		return inputs, calls, err
	}
	repo, err := repository.OpenGoGitRepo(p.dir, world.Namespace, nil)
	if err != nil {
		return inputs, calls, err
	}
	if p.cache, err = cache.NewRepoCacheNoEvents(repo); err != nil {
		return inputs, calls, err
	}
	if want("reopened") && (onlyApi == "" || onlyApi == "bug.ResolveComment") {
		add(p.checkAt(col, "bug.ResolveComment", onlyPrefix, "", out))
	}
	return inputs, calls, nil
}

func partC(col *collector, scratch string, seed uint64, pops int) partResult {
	r := partResult{Outcomes: map[string]int{}}
	var shapes []string
	for k := 0; k < pops; k++ {
		p, err := buildReal(filepath.Join(scratch, fmt.Sprintf("real%02d", k)), seed, k)
		if err != nil {
			r.Err = fmt.Errorf("population %d: %w", k, err)
			return r
		}
		if k == 0 {
			r.Samples = append(r.Samples, map[string]any{"part": "c", "bugs": short(p.Bugs), "identities": short(p.Idents), "comments": p.Comments, "sample_prefixes": p.commentPrefixes()[:10], "comment_edits": editPlan})
		}
		in, calls, err := p.runStages(col, "", "", "", r.Outcomes)
		if err != nil {
			r.Err = fmt.Errorf("population %d: %w", k, err)
			return r
		}
		r.Inputs += in
		r.Calls += calls
		shapes = append(shapes, p.Shape)
		if err := p.cache.Close(); err != nil {
			r.Err = err
			return r
		}
	}
	r.Extra = map[string]any{"populations": pops, "bugs_per_population": realBugsPerPop, "identities_per_population": identsPerPop, "shapes": shapes, "comment_edits_per_population": len(editPlan)}
	return r
}

func replayC(col *collector, scratch string, m map[string]any) error {
	p, err := buildReal(filepath.Join(scratch, "real-replay"), uint64(num(m, "seed")), num(m, "population"))
	if err != nil {
		return err
	}
	defer func() { p.cache.Close() }()
	if str(m, "api") == "select.Resolve" {
		sel := num(m, "selection")
		_, _, err := p.checkSelect(col, &sel, strs(m, "args"), true, map[string]int{})
		return err
	}
	stage := str(m, "stage")
	if stage == "" {
		stage = "before-edits"
	}
	_, _, err = p.runStages(col, stage, str(m, "api"), str(m, "prefix"), map[string]int{})
	return err
}
