package c13

import (
	"fmt"
	"path/filepath"
	"sort"
	"strings"

	"github.com/MichaelMure/git-bug/cache"
	_select "github.com/MichaelMure/git-bug/commands/select"
	"github.com/MichaelMure/git-bug/entities/bug"
	"github.com/MichaelMure/git-bug/entity"
)

// The command-layer resolver (commands/select: behind `git bug show|comment|title|status|label|
// select ... [BUG_ID]`), called exactly as commands/bug does, on the real mined populations (the
// selection is loaded through Resolve, so it needs bugs with git data behind them).
//
// Reference, from the function's documentation and the statement: the first argument is tried as
// an id prefix, whatever is selected: exactly one bug has it -> that bug and the remaining
// arguments; several have it -> the multiple-match error listing exactly them; none has it (or
// there is no argument) -> the argument is not an id, the answer is the selected bug with the
// arguments untouched, or the "no valid id" error when nothing is selected; a selection pointing
// to a bug that does not exist -> the "no valid id" error and the selection is cleared.
// The empty string as first argument is a prefix of every id like any other prefix.

const (
	selNone     = -1
	selDangling = -2
)

func selectionName(sel int) string {
	switch sel {
	case selNone:
		return "nothing selected"
	case selDangling:
		return "selection points to a bug that does not exist"
	}
	return fmt.Sprintf("bug %d selected", sel)
}

func danglingId() string { return hexOf("a bug that does not exist") }

func (p *realPop) setSelection(sel int) error {
	switch sel {
	case selNone:
		if p.selectFileExists() {
			return _select.Clear(p.cache, bug.Namespace)
		}
		return nil
	case selDangling:
		return _select.Select(p.cache, bug.Namespace, entity.Id(danglingId()))
	}
	return _select.Select(p.cache, bug.Namespace, entity.Id(p.Bugs[sel]))
}

func (p *realPop) selectFileExists() bool {
	_, err := p.cache.LocalStorage().Stat(filepath.Join("select", bug.Namespace))
	return err == nil
}

func selectResolve(c *cache.RepoCache, args []string) (gotId string, rest []string, err error, panicked any) {
	defer func() { panicked = recover() }()
	b, rest, err := _select.Resolve[*cache.BugCache](c, bug.Typename, bug.Namespace, c.Bugs(), args)
	if err == nil && b != nil {
		gotId = string(b.Id())
	}
	return gotId, rest, err, nil
}

// judgeSelect gives the verdict for one call. args is nil (no argument) or {prefix, "extra"}.
func (p *realPop) judgeSelect(sel int, args []string, gotId string, rest []string, err error, pan any) (sig, detail string) {
	if pan != nil {
		return "panic", fmt.Sprintf("panicked: %v", pan)
	}
	selectedId := ""
	if sel >= 0 {
		selectedId = p.Bugs[sel]
	}
	var exp []string
	if len(args) > 0 {
		exp = matching(p.Bugs, args[0])
	}
	same := func(a, b []string) bool {
		return strings.Join(a, "\x00") == strings.Join(b, "\x00") && len(a) == len(b)
	}
	switch {
	case len(exp) > 1:
		if err == nil {
			if gotId == selectedId {
				return "ambiguous-prefix-resolved-to-selection", fmt.Sprintf("%d bugs have the prefix (%v); the selected bug %s was returned without error", len(exp), short(exp), short([]string{gotId})[0])
			}
			return "ambiguous-prefix-resolved", fmt.Sprintf("%d bugs have the prefix (%v); %s was returned without error", len(exp), short(exp), short([]string{gotId})[0])
		}
		mm, ok := err.(*entity.ErrMultipleMatch)
		if !ok {
			return "ambiguous-prefix-wrong-error", fmt.Sprintf("%d bugs have the prefix; error is %T %q, not the multiple-match error", len(exp), err, err)
		}
		var got []string
		for _, id := range mm.Matching {
			got = append(got, string(id))
		}
		sort.Strings(got)
		if !same(got, exp) {
			return "multiple-match-list-wrong", fmt.Sprintf("bugs with the prefix: %v; error lists %v", short(exp), short(got))
		}
	case len(exp) == 1:
		if err != nil {
			return "single-match-not-resolved", fmt.Sprintf("exactly %s has the prefix; got error %T %q", short(exp)[0], err, err)
		}
		if gotId != exp[0] {
			what := "single-match-wrong-entity"
			if gotId == selectedId {
				what = "single-match-resolved-to-selection"
			}
			return what, fmt.Sprintf("exactly %s has the prefix; got %s", short(exp)[0], short([]string{gotId})[0])
		}
		if !same(rest, args[1:]) {
			return "remaining-arguments-wrong", fmt.Sprintf("the id argument was used; remaining arguments are %q, want %q", rest, args[1:])
		}
	default: // no argument, or an argument that is no bug's prefix: the selection decides
		switch {
		case sel >= 0:
			if err != nil {
				return "selection-not-used", fmt.Sprintf("no bug has the argument as prefix and %s is selected; got error %T %q", short([]string{selectedId})[0], err, err)
			}
			if gotId != selectedId {
				return "selection-wrong-entity", fmt.Sprintf("%s is selected; got %s", short([]string{selectedId})[0], short([]string{gotId})[0])
			}
			if !same(rest, args) {
				return "remaining-arguments-wrong", fmt.Sprintf("the selection was used; remaining arguments are %q, want all of %q", rest, args)
			}
		default:
			if err == nil {
				return "resolved-without-id-or-selection", fmt.Sprintf("no bug has the argument as prefix and no existing bug is selected; %s was returned", short([]string{gotId})[0])
			}
			if !_select.IsErrNoValidId(err) {
				return "no-id-not-reported", fmt.Sprintf("no bug has the argument as prefix and no existing bug is selected; error is %T %q, not the no-valid-id error", err, err)
			}
			if sel == selDangling && p.selectFileExists() {
				return "dangling-selection-not-cleared", "the selection points to a bug that does not exist; it was reported but not cleared"
			}
		}
	}
	return "", ""
}

// checkSelect: every selection state (nothing, each bug, a bug that does not exist) x (no
// argument, every prefix length 0..64 of every bug id, one-character perturbations, a 65-character
// extension) through _select.Resolve.
func (p *realPop) checkSelect(col *collector, onlySel *int, onlyArgs []string, only bool, out map[string]int) (inputs, calls int, herr error) {
	prefixes := idPrefixes(p.Bugs)
	sels := []int{selNone, selDangling}
	for i := range p.Bugs {
		sels = append(sels, i)
	}
	for _, sel := range sels {
		if only && sel != *onlySel {
			continue
		}
		if err := p.setSelection(sel); err != nil {
			return inputs, calls, fmt.Errorf("setting the selection: %w", err)
		}
		cases := [][]string{nil}
		for _, pre := range prefixes {
			cases = append(cases, []string{pre, "extra"})
		}
		for _, args := range cases {
			if only && !(len(args) == len(onlyArgs) && (len(args) == 0 || args[0] == onlyArgs[0])) {
				continue
			}
			if sel == selDangling && !p.selectFileExists() {
				// the previous case made the resolver clear the dangling selection, as documented
				if err := p.setSelection(sel); err != nil {
					return inputs, calls, fmt.Errorf("setting the selection: %w", err)
				}
			}
			inputs++
			calls++
			got, rest, err, pan := selectResolve(p.cache, append([]string{}, args...))
			if sig, detail := p.judgeSelect(sel, args, got, rest, err, pan); sig != "" {
				col.add(finding{"select-resolution", "select.Resolve:" + sig,
					fmt.Sprintf("real population %d (bugs %v), %s, _select.Resolve(args=%q): %s", p.K, short(p.Bugs), selectionName(sel), args, detail),
					map[string]any{"part": "c", "seed": p.Seed, "population": p.K, "api": "select.Resolve", "selection": sel, "args": args}})
				out["VIOLATION select "+sig]++
			} else {
				n := 0
				if len(args) > 0 {
					n = min(len(matching(p.Bugs, args[0])), 2)
				}
				kind := map[bool]string{true: "argument", false: "no argument"}[len(args) > 0]
				selKind := "a bug selected"
				if sel < 0 {
					selKind = selectionName(sel)
				}
				out[fmt.Sprintf("select %s %d-match, %s ok", kind, n, selKind)]++
			}
		}
	}
	if err := p.setSelection(selNone); err != nil {
		return inputs, calls, err
	}
	return
}
