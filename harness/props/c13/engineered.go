package c13

import (
	"bytes"
	"encoding/gob"
	"fmt"
	"path/filepath"
	"runtime"
	"sort"
	"strings"
	"sync"

	"github.com/MichaelMure/git-bug/cache"
	"github.com/MichaelMure/git-bug/entities/bug"
	"github.com/MichaelMure/git-bug/entities/identity"
	"github.com/MichaelMure/git-bug/entity"
	"github.com/MichaelMure/git-bug/repository"

	"verifharness/world"
)

// engineeredIds are the 16 ids {a,b}^4 padded with '0' to 64 characters.
func engineeredIds() []string {
	var out []string
	for n := 0; n < 16; n++ {
		var b [4]byte
		for i := 0; i < 4; i++ {
			b[i] = 'a'
			if n&(8>>i) != 0 {
				b[i] = 'b'
			}
		}
		out = append(out, string(b[:])+strings.Repeat("0", 60))
	}
	return out
}

// engineeredPopulations: every set of 1..maxSize of the 16 ids (maxSize 4: 16+120+560+1820 = 2516;
// 5: 6884).
func engineeredPopulations(maxSize int) [][]string {
	ids := engineeredIds()
	var out [][]string
	var rec func(start int, cur []string)
	rec = func(start int, cur []string) {
		if len(cur) > 0 {
			out = append(out, append([]string{}, cur...))
		}
		if len(cur) == maxSize {
			return
		}
		for i := start; i < len(ids); i++ {
			rec(i+1, append(cur, ids[i]))
		}
	}
	rec(0, nil)
	sort.SliceStable(out, func(i, j int) bool { return len(out[i]) < len(out[j]) })
	return out
}

// prefixesFor lists the prefixes tried against a population: every prefix of length 0..5 of every
// id, the full id, a variant of each with the last character replaced by one that occurs in no
// id, and a 65-character extension.
func prefixesFor(ids []string, maxLen int) []string {
	set := map[string]bool{}
	for _, id := range ids {
		for l := 0; l <= maxLen && l <= len(id); l++ {
			set[id[:l]] = true
			if l > 0 {
				set[id[:l-1]+"c"] = true
			}
		}
		set[id] = true
		set[id[:len(id)-1]+"c"] = true
		set[id+"0"] = true
	}
	var out []string
	for p := range set {
		out = append(out, p)
	}
	sort.Slice(out, func(i, j int) bool {
		if len(out[i]) != len(out[j]) {
			return len(out[i]) < len(out[j])
		}
		return out[i] < out[j]
	})
	return out
}

func matching(ids []string, prefix string) []string {
	var out []string
	for _, id := range ids {
		if strings.HasPrefix(id, prefix) {
			out = append(out, id)
		}
	}
	sort.Strings(out)
	return out
}

// judge compares one prefix resolution with the statement: 0 matches -> not-found error type;
// 1 -> that entity; several -> multiple-match error listing exactly the matching ids.
// gotId is the id of the returned entity ("" with an error).
func judge(expected []string, gotId string, err error, panicked any) (sig, detail string) {
	if panicked != nil {
		return "panic", fmt.Sprintf("panicked: %v", panicked)
	}
	switch len(expected) {
	case 0:
		if err == nil {
			return "resolved-without-match", fmt.Sprintf("no id has the prefix but %s was returned", gotId)
		}
		if !entity.IsErrNotFound(err) {
			return "no-match-not-reported-as-not-found", fmt.Sprintf("no id has the prefix; error is %T %q, not the not-found error", err, err)
		}
	case 1:
		if err != nil {
			return "single-match-not-resolved", fmt.Sprintf("exactly %s has the prefix; got error %T %q", expected[0], err, err)
		}
		if gotId != expected[0] {
			return "single-match-wrong-entity", fmt.Sprintf("exactly %s has the prefix; got %s", expected[0], gotId)
		}
	default:
		if err == nil {
			return "ambiguous-prefix-resolved", fmt.Sprintf("%d ids have the prefix (%v) but %s was returned without error", len(expected), short(expected), gotId)
		}
		mm, ok := err.(*entity.ErrMultipleMatch)
		if !ok {
			return "ambiguous-prefix-wrong-error", fmt.Sprintf("%d ids have the prefix; error is %T %q, not the multiple-match error", len(expected), err, err)
		}
		var got []string
		for _, id := range mm.Matching {
			got = append(got, string(id))
		}
		sort.Strings(got)
		if strings.Join(got, ",") != strings.Join(expected, ",") {
			return "multiple-match-list-wrong", fmt.Sprintf("ids with the prefix: %v; error lists %v", short(expected), short(got))
		}
	}
	return "", ""
}

func short(ids []string) []string {
	var out []string
	for _, id := range ids {
		if len(id) > 10 {
			id = id[:10]
		}
		out = append(out, id)
	}
	return out
}

// plant writes a bug and an identity cache file holding excerpts for ids, and index documents so
// that the document count heuristic of SubCache.Load passes. version is the cache format version
// read from a cache file git-bug wrote itself.
func plant(repo *repository.GoGitRepo, version uint, ids []string) error {
	bugs := map[entity.Id]*cache.BugExcerpt{}
	idents := map[entity.Id]*cache.IdentityExcerpt{}
	for _, id := range ids {
		bugs[entity.Id(id)] = &cache.BugExcerpt{Title: "planted " + id[:4]}
		idents[entity.Id(id)] = &cache.IdentityExcerpt{Name: "planted " + id[:4]}
	}
	write := func(ns string, v any) error {
		var buf bytes.Buffer
		if err := gob.NewEncoder(&buf).Encode(v); err != nil {
			return err
		}
		f, err := repo.LocalStorage().Create(filepath.Join("cache", ns))
		if err != nil {
			return err
		}
		if _, err := f.Write(buf.Bytes()); err != nil {
			f.Close()
			return err
		}
		if err := f.Close(); err != nil {
			return err
		}
		idx, err := repo.GetIndex(ns)
		if err != nil {
			return err
		}
		if err := idx.Clear(); err != nil {
			return err
		}
		for _, id := range ids {
			if err := idx.IndexOne(id, []string{"planted"}); err != nil {
				return err
			}
		}
		return nil
	}
	if err := write(bug.Namespace, struct {
		Version  uint
		Excerpts map[entity.Id]*cache.BugExcerpt
	}{version, bugs}); err != nil {
		return err
	}
	return write(identity.Namespace, struct {
		Version  uint
		Excerpts map[entity.Id]*cache.IdentityExcerpt
	}{version, idents})
}

// engRepo is one worker's repository for planted populations.
type engRepo struct {
	path    string
	version uint
}

func newEngRepo(path string) (*engRepo, error) {
	repo, err := repository.InitGoGitRepo(path, world.Namespace)
	if err != nil {
		return nil, err
	}
	// let git-bug write its own (empty) cache once, to learn the format version it expects
	c, err := cache.NewRepoCacheNoEvents(repo)
	if err != nil {
		return nil, err
	}
	if err := c.Close(); err != nil {
		return nil, err
	}
	repo, err = repository.OpenGoGitRepo(path, world.Namespace, nil)
	if err != nil {
		return nil, err
	}
	defer repo.Close()
	f, err := repo.LocalStorage().Open(filepath.Join("cache", bug.Namespace))
	if err != nil {
		return nil, err
	}
	defer f.Close()
	var aux struct{ Version uint }
	if err := gob.NewDecoder(f).Decode(&aux); err != nil {
		return nil, fmt.Errorf("reading the cache file git-bug wrote: %w", err)
	}
	return &engRepo{path: path, version: aux.Version}, nil
}

// open plants ids and opens the real cache on them; it fails (harness error) when the cache did
// not take the planted files as they are.
func (e *engRepo) open(ids []string) (*cache.RepoCache, error) {
	repo, err := repository.OpenGoGitRepo(e.path, world.Namespace, nil)
	if err != nil {
		return nil, err
	}
	if err := plant(repo, e.version, ids); err != nil {
		repo.Close()
		return nil, err
	}
	c, events := cache.NewRepoCache(repo)
	rebuilt := false
	var evErr error
	for ev := range events {
		if ev.Err != nil && evErr == nil {
			evErr = ev.Err
		}
		if ev.Event == cache.BuildEventCacheIsBuilt {
			rebuilt = true
		}
	}
	if evErr != nil {
		return nil, evErr
	}
	if rebuilt {
		c.Close()
		return nil, fmt.Errorf("the cache refused the planted files and rebuilt")
	}
	for what, got := range map[string][]entity.Id{"bugs": c.Bugs().AllIds(), "identities": c.Identities().AllIds()} {
		var g []string
		for _, id := range got {
			g = append(g, string(id))
		}
		sort.Strings(g)
		want := append([]string{}, ids...)
		sort.Strings(want)
		if strings.Join(g, ",") != strings.Join(want, ",") {
			c.Close()
			return nil, fmt.Errorf("planted %s population mismatch: cache has %v, planted %v", what, short(g), short(want))
		}
	}
	return c, nil
}

// resolveCall executes one of the four prefix resolution entry points.
func resolveCall(c *cache.RepoCache, api, prefix string) (gotId string, err error, panicked any) {
	defer func() { panicked = recover() }()
	switch api {
	case "bug.ResolveExcerptPrefix":
		e, err := c.Bugs().ResolveExcerptPrefix(prefix)
		if err == nil {
			gotId = string(e.Id())
		}
		return gotId, err, nil
	case "identity.ResolveExcerptPrefix":
		e, err := c.Identities().ResolveExcerptPrefix(prefix)
		if err == nil {
			gotId = string(e.Id())
		}
		return gotId, err, nil
	case "bug.ResolvePrefix":
		e, err := c.Bugs().ResolvePrefix(prefix)
		if err == nil {
			gotId = string(e.Id())
		}
		return gotId, err, nil
	case "identity.ResolvePrefix":
		e, err := c.Identities().ResolvePrefix(prefix)
		if err == nil {
			gotId = string(e.Id())
		}
		return gotId, err, nil
	}
	return "", fmt.Errorf("unknown api %s", api), nil
}

var engApis = []string{"bug.ResolveExcerptPrefix", "identity.ResolveExcerptPrefix", "bug.ResolvePrefix", "identity.ResolvePrefix"}

// shape renders which pairs of a population share how many leading characters (non-vacuity).
func shape(ids []string) string {
	var d []string
	for i := range ids {
		for j := i + 1; j < len(ids); j++ {
			k := 0
			for k < 4 && ids[i][k] == ids[j][k] {
				k++
			}
			d = append(d, fmt.Sprint(k))
		}
	}
	sort.Strings(d)
	return fmt.Sprintf("%d:%s", len(ids), strings.Join(d, ""))
}

func checkEngineered(col *collector, c *cache.RepoCache, ids []string, onlyApi, onlyPrefix string, out map[string]int) (inputs, calls int) {
	for _, p := range prefixesFor(ids, 5) {
		if onlyApi != "" && p != onlyPrefix {
			continue
		}
		inputs++
		exp := matching(ids, p)
		for _, api := range engApis {
			if onlyApi != "" && api != onlyApi {
				continue
			}
			if strings.HasSuffix(api, ".ResolvePrefix") && len(exp) == 1 {
				continue // would go on to load an entity that has no git data behind it
			}
			got, err, pan := resolveCall(c, api, p)
			calls++
			sig, detail := judge(exp, got, err, pan)
			if sig != "" {
				col.add(finding{"prefix-resolution", api + ":" + sig,
					fmt.Sprintf("planted ids %v, %s(%q): %s", short(ids), api, p, detail),
					map[string]any{"part": "b", "ids": ids, "api": api, "prefix": p}})
				out["VIOLATION "+sig]++
			} else {
				out[fmt.Sprintf("%d-match ok", min(len(exp), 2))]++
			}
		}
	}
	return
}

func partB(col *collector, scratch string, maxSize int) partResult {
	pops := engineeredPopulations(maxSize)
	workers := runtime.NumCPU()
	if workers > 16 {
		workers = 16
	}
	r := partResult{Outcomes: map[string]int{}}
	var mu sync.Mutex
	shapes := map[string]int{}
	var wg sync.WaitGroup
	next := make(chan int, len(pops))
	for i := range pops {
		next <- i
	}
	close(next)
	for w := 0; w < workers; w++ {
		wg.Add(1)
		go func(w int) {
			defer wg.Done()
			er, err := newEngRepo(filepath.Join(scratch, fmt.Sprintf("eng%02d", w)))
			if err != nil {
				mu.Lock()
				r.Err = err
				mu.Unlock()
				return
			}
			for i := range next {
				mu.Lock()
				failed := r.Err != nil
				mu.Unlock()
				if failed {
					return
				}
				ids := pops[i]
				c, err := er.open(ids)
				if err != nil {
					mu.Lock()
					r.Err = fmt.Errorf("population %v: %w", short(ids), err)
					mu.Unlock()
					return
				}
				out := map[string]int{}
				in, calls := checkEngineered(col, c, ids, "", "", out)
				if err := c.Close(); err != nil {
					mu.Lock()
					r.Err = err
					mu.Unlock()
					return
				}
				mu.Lock()
				r.Inputs += in
				r.Calls += calls
				merge(r.Outcomes, out, "")
				shapes[shape(ids)]++
				mu.Unlock()
			}
		}(w)
	}
	wg.Wait()
	r.Extra = map[string]any{"populations": len(pops), "max_ids_per_population": maxSize, "distinct_shared_prefix_shapes": len(shapes)}
	ex := pops[len(pops)-1]
	r.Samples = []any{map[string]any{"part": "b", "planted_ids": short(ex), "prefixes_tried": prefixesFor(ex, 5)[:12], "apis": engApis}}
	return r
}

func replayB(col *collector, scratch string, m map[string]any) error {
	er, err := newEngRepo(filepath.Join(scratch, "eng-replay"))
	if err != nil {
		return err
	}
	ids := strs(m, "ids")
	c, err := er.open(ids)
	if err != nil {
		return err
	}
	defer c.Close()
	checkEngineered(col, c, ids, str(m, "api"), str(m, "prefix"), map[string]int{})
	return nil
}
