module verifharness

go 1.22.5

require github.com/MichaelMure/git-bug v0.0.0

replace github.com/MichaelMure/git-bug => /repo

replace github.com/praetorian-inc/gokart v0.5.1 => github.com/selesy/gokart v0.5.2-rc1

replace github.com/willf/bitset v1.1.11 => github.com/bits-and-blooms/bitset v1.1.11
