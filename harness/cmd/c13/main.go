package main

import (
	"verifharness/cli"
	"verifharness/props/c13"
)

func main() {
	cli.Main(map[string]func([]string){
		"C13": c13.Main,
	}, nil)
}
