package main

import (
	"verifharness/cli"
	"verifharness/props/c12"
)

func main() {
	cli.Main(map[string]func([]string){
		"C12": c12.Main,
	}, nil)
}
