package main

import (
	"verifharness/cli"
	"verifharness/props/syncrun"
	"verifharness/props/syncw"
	"verifharness/xstate"
)

func main() {
	cli.Main(map[string]func([]string){
		"C02": func(a []string) { syncrun.Run("C02", a) },
	}, map[string]xstate.Factory{"syncw": syncw.New})
}
