package main

import (
	"flag"
	"fmt"
	"os"
	"sort"
	"strings"
	"time"

	"verifharness/cli"
	"verifharness/evidence"
	"verifharness/props/c11"
	"verifharness/props/idw"
	"verifharness/props/syncrun"
	"verifharness/props/syncw"
	"verifharness/xstate"
)

func main() {
	cli.Main(map[string]func([]string){"C02": run},
		map[string]xstate.Factory{"syncw": syncw.New, "idw": idw.New, "c11w": c11.New})
}

// run = the sync-world exploration of bug pulls (syncrun) plus the identity world: the statement
// of C02 speaks of bugs AND identities, and an identity pull has its own merge code.
func run(args []string) {
	fs := flag.NewFlagSet("C02", flag.ExitOnError)
	replay := fs.String("replay", "", "replay file")
	depthOverride := fs.Int("depth", 0, "override depth")
	fs.Parse(args)
	if *replay != "" {
		os.Exit(syncrun.Replay(*replay))
	}
	tier := evidence.Tier()
	seed := uint64(evidence.Seed())
	rep := evidence.NewReporter("C02")
	start := time.Now()
	cov, harnessErr := syncrun.Explore("C02", tier, seed, *depthOverride, rep)

	// identity pulls: mutate/push/pull of a shared identity (+1 bystander) on two replicas, every
	// pull compared with the prefix-relation model (contains everything of the remote version,
	// report agrees with what changed, returned entity = stored one)
	depth, budget := 5, 45*time.Second
	if tier == "thorough" {
		depth, budget = 7, 8*time.Minute
	}
	if *depthOverride > 0 {
		depth = *depthOverride
	}
	p := idw.Params{Seed: seed, Others: 1}
	fmt.Fprintf(os.Stderr, "== C02: identity pulls (depth %d)\n", depth)
	res := xstate.Run(xstate.Config{Property: "C02", Model: "idw", Params: p.String(), MaxDepth: depth,
		Deadline: time.Now().Add(budget), CrashIsViolation: true, Log: os.Stderr})
	for _, e := range res.HarnessErrors {
		fmt.Fprintln(os.Stderr, "harness error:", e)
		harnessErr = true
	}
	sort.Slice(res.Found, func(i, j int) bool { return len(res.Found[i].Path) < len(res.Found[j].Path) })
	for _, fd := range res.Found {
		n := xstate.Reproductions("idw", p.String(), fd, 5)
		rep.Report(evidence.Report{Oracle: strings.Replace(fd.Oracle, "c09.", "c02.identity.", 1), Sig: fd.Sig,
			Detail: fmt.Sprintf("[identity pulls] after %v: %s (reproduced %d/5)", fd.Path, fd.Detail, n),
			Replay: map[string]any{"model": "idw", "params": p, "path": fd.Path, "reproduced_of_5": n, "model_oracle": fd.Oracle}, Count: res.SigCount[fd.Oracle+"|"+fd.Sig]})
	}
	cov["states"] = cov["states"].(int) + res.States
	cov["transitions"] = cov["transitions"].(int) + res.Transitions
	cov["traces_validated_against_impl"] = cov["transitions"]
	cov["exhaustive"] = cov["exhaustive"].(bool) && res.Exhaustive
	cov["runs"] = append(cov["runs"].([]map[string]any), map[string]any{"configuration": "identity pulls (shared identity + 1 bystander, two replicas)",
		"params": p, "max_depth": depth, "completed_depth": res.CompletedDepth, "states": res.States, "transitions": res.Transitions, "new_states_per_depth": res.PerDepth})
	for _, s := range res.Samples {
		cov["samples"] = append(cov["samples"].([]any), map[string]any{"configuration": "identity pulls", "path": s})
	}
	// pulls through the cache: "the cache replaces its cached entity and excerpt by the merged one".
	// The cache world of C11 with the actions that matter here: A keeps an operation pending on a
	// loaded bug (stage), B comments and pushes, A pulls; after every pull that changed something one
	// more edit is committed through the live cache and the git data must hold the operations of both
	// sides and the new one. Only the pull oracles of that world are taken over.
	cdepth, cbudget := 5, 75*time.Second
	if tier == "thorough" {
		cdepth, cbudget = 7, 10*time.Minute
	}
	if *depthOverride > 0 {
		cdepth = *depthOverride
	}
	cp := c11.Params{Seed: seed, Kinds: "stage,comment,pull", KindsB: "comment,idmutateother,push"}
	fmt.Fprintf(os.Stderr, "== C02: pulls through the cache with an operation pending (depth %d)\n", cdepth)
	cres := xstate.Run(xstate.Config{Property: "C02", Model: "c11w", Params: cp.String(), MaxDepth: cdepth,
		Deadline: time.Now().Add(cbudget), CrashIsViolation: true, Log: os.Stderr})
	for _, e := range cres.HarnessErrors {
		fmt.Fprintln(os.Stderr, "harness error:", e)
		harnessErr = true
	}
	sort.Slice(cres.Found, func(i, j int) bool { return len(cres.Found[i].Path) < len(cres.Found[j].Path) })
	for _, fd := range cres.Found {
		identityAfterPull := fd.Oracle == "c11.coherent" && strings.HasSuffix(fd.Sig, "/after-pull") &&
			(strings.HasPrefix(fd.Sig, "user-identity") || strings.HasPrefix(fd.Sig, "identity-"))
		if fd.Oracle != "c11.builds-on-merge" && fd.Oracle != "crash" && !strings.HasPrefix(fd.Sig, "hang-or-panic/") && !identityAfterPull {
			continue // what the cache serves between pulls is C11's subject; what it serves of an identity right after the pull that updated it is this one's
		}
		n := xstate.Reproductions("c11w", cp.String(), fd, 5)
		rep.Report(evidence.Report{Oracle: strings.Replace(fd.Oracle, "c11.", "c02.cache.", 1), Sig: fd.Sig,
			Detail: fmt.Sprintf("[pulls through the cache] after %v: %s (reproduced %d/5)", fd.Path, fd.Detail, n),
			Replay: map[string]any{"model": "c11w", "params": cp, "path": fd.Path, "reproduced_of_5": n, "model_oracle": fd.Oracle}, Count: cres.SigCount[fd.Oracle+"|"+fd.Sig]})
	}
	cov["states"] = cov["states"].(int) + cres.States
	cov["transitions"] = cov["transitions"].(int) + cres.Transitions
	cov["traces_validated_against_impl"] = cov["transitions"]
	cov["exhaustive"] = cov["exhaustive"].(bool) && cres.Exhaustive
	cov["runs"] = append(cov["runs"].([]map[string]any), map[string]any{"configuration": "pulls through the cache with an operation pending (cache world of C11: A stage/comment/pull, B comment/idmutateother/push — B also gives A's own identity a new version)",
		"params": cp, "max_depth": cdepth, "completed_depth": cres.CompletedDepth, "states": cres.States, "transitions": cres.Transitions, "new_states_per_depth": cres.PerDepth,
		"probes_after_pull": cres.Tags["probe-edit-after-pull"]})
	for _, s := range cres.Samples {
		cov["samples"] = append(cov["samples"].([]any), map[string]any{"configuration": "pulls through the cache", "path": s})
	}
	ev := evidence.Evidence{PropertyID: "C02", Tier: tier, Seed: int(seed), Level: "model_checking", Coverage: cov,
		Assumptions: append(append([]string{}, syncrun.Assumptions...), "identity pulls are explored in their own world (props/idw, shared with C09)",
			"pulls through cache.RepoCache are explored in the cache world of C11 restricted to stage/comment/push/pull; only its after-pull oracles count here"),
		WallS: time.Since(start).Seconds(), Violations: rep.Viol, Known: rep.KnownSeen()}
	if err := ev.Write(); err != nil {
		fmt.Fprintln(os.Stderr, "harness error: cannot write evidence:", err)
		os.Exit(2)
	}
	fmt.Printf("C02: states=%v transitions=%v exhaustive=%v violations=%d wall=%.1fs\n", cov["states"], cov["transitions"], cov["exhaustive"], rep.Viol, time.Since(start).Seconds())
	if harnessErr && rep.Viol == 0 {
		os.Exit(2)
	}
	rep.Exit()
}
