package main

import (
	"flag"
	"fmt"
	"os"
	"sort"
	"strings"
	"time"

	"verifharness/cli"
	"verifharness/evidence"
	"verifharness/props/idw"
	"verifharness/props/syncrun"
	"verifharness/props/syncw"
	"verifharness/xstate"
)

func main() {
	cli.Main(map[string]func([]string){"C02": run},
		map[string]xstate.Factory{"syncw": syncw.New, "idw": idw.New})
}

// run = the sync-world exploration of bug pulls (syncrun) plus the identity world: the statement
// of C02 speaks of bugs AND identities, and an identity pull has its own merge code.
func run(args []string) {
	fs := flag.NewFlagSet("C02", flag.ExitOnError)
	replay := fs.String("replay", "", "replay file")
	depthOverride := fs.Int("depth", 0, "override depth")
	fs.Parse(args)
	if *replay != "" {
		os.Exit(syncrun.Replay(*replay))
	}
	tier := evidence.Tier()
	seed := uint64(evidence.Seed())
	rep := evidence.NewReporter("C02")
	start := time.Now()
	cov, harnessErr := syncrun.Explore("C02", tier, seed, *depthOverride, rep)

	// identity pulls: mutate/push/pull of a shared identity (+1 bystander) on two replicas, every
	// pull compared with the prefix-relation model (contains everything of the remote version,
	// report agrees with what changed, returned entity = stored one)
	depth, budget := 5, 45*time.Second
	if tier == "thorough" {
		depth, budget = 7, 8*time.Minute
	}
	if *depthOverride > 0 {
		depth = *depthOverride
	}
	p := idw.Params{Seed: seed, Others: 1}
	fmt.Fprintf(os.Stderr, "== C02: identity pulls (depth %d)\n", depth)
	res := xstate.Run(xstate.Config{Property: "C02", Model: "idw", Params: p.String(), MaxDepth: depth,
		Deadline: time.Now().Add(budget), CrashIsViolation: true, Log: os.Stderr})
	for _, e := range res.HarnessErrors {
		fmt.Fprintln(os.Stderr, "harness error:", e)
		harnessErr = true
	}
	sort.Slice(res.Found, func(i, j int) bool { return len(res.Found[i].Path) < len(res.Found[j].Path) })
	for _, fd := range res.Found {
		n := xstate.Reproductions("idw", p.String(), fd, 5)
		rep.Report(evidence.Report{Oracle: strings.Replace(fd.Oracle, "c09.", "c02.identity.", 1), Sig: fd.Sig,
			Detail: fmt.Sprintf("[identity pulls] after %v: %s (reproduced %d/5)", fd.Path, fd.Detail, n),
			Replay: map[string]any{"model": "idw", "params": p, "path": fd.Path, "reproduced_of_5": n}, Count: res.SigCount[fd.Oracle+"|"+fd.Sig]})
	}
	cov["states"] = cov["states"].(int) + res.States
	cov["transitions"] = cov["transitions"].(int) + res.Transitions
	cov["traces_validated_against_impl"] = cov["transitions"]
	cov["exhaustive"] = cov["exhaustive"].(bool) && res.Exhaustive
	cov["runs"] = append(cov["runs"].([]map[string]any), map[string]any{"configuration": "identity pulls (shared identity + 1 bystander, two replicas)",
		"params": p, "max_depth": depth, "completed_depth": res.CompletedDepth, "states": res.States, "transitions": res.Transitions, "new_states_per_depth": res.PerDepth})
	for _, s := range res.Samples {
		cov["samples"] = append(cov["samples"].([]any), map[string]any{"configuration": "identity pulls", "path": s})
	}
	ev := evidence.Evidence{PropertyID: "C02", Tier: tier, Seed: int(seed), Level: "model_checking", Coverage: cov,
		Assumptions: append(append([]string{}, syncrun.Assumptions...), "identity pulls are explored in their own world (props/idw, shared with C09)"),
		WallS: time.Since(start).Seconds(), Violations: rep.Viol, Known: rep.KnownSeen()}
	if err := ev.Write(); err != nil {
		fmt.Fprintln(os.Stderr, "harness error: cannot write evidence:", err)
		os.Exit(2)
	}
	fmt.Printf("C02: states=%v transitions=%v exhaustive=%v violations=%d wall=%.1fs\n", cov["states"], cov["transitions"], cov["exhaustive"], rep.Viol, time.Since(start).Seconds())
	if harnessErr && rep.Viol == 0 {
		os.Exit(2)
	}
	rep.Exit()
}
