package main

import (
	"verifharness/cli"
	"verifharness/props/c04"
	"verifharness/xstate"
)

func main() {
	cli.Main(map[string]func([]string){
		"C04":       c04.Main,
		"c04worker": c04.Worker,
		"c04dump":   c04.Dump,
		"c04count":  c04.Count,
	}, map[string]xstate.Factory{})
}
