package main

import (
	"verifharness/cli"
	"verifharness/props/c08"
	"verifharness/xstate"
)

func main() {
	cli.Main(map[string]func([]string){
		"C08":       c08.Main,
		"c08worker": c08.Worker,
	}, map[string]xstate.Factory{})
}
