package main

import (
	"verifharness/cli"
	"verifharness/props/c06"
	"verifharness/xstate"
)

func main() {
	cli.Main(map[string]func([]string){
		"C06":       c06.Main,
		"c06driver": c06.DriverMain,
		"c06crash":  c06.CrashMain,
	}, map[string]xstate.Factory{})
}
