package main

import (
	"verifharness/cli"
	"verifharness/props/c05b"
	"verifharness/props/syncw"
	"verifharness/xstate"
)

func main() {
	cli.Main(map[string]func([]string){
		"C05":      c05b.Main,
		"c05retry": c05b.RetryWorker,
	}, map[string]xstate.Factory{"syncw": syncw.New, "c05b": c05b.New})
}
