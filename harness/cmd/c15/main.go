package main

import (
	"verifharness/cli"
	"verifharness/props/c15"
	"verifharness/xstate"
)

func main() {
	cli.Main(map[string]func([]string){
		"C15": c15.Main,
	}, map[string]xstate.Factory{"c15": c15.New})
}
