package main

import (
	"verifharness/cli"
	"verifharness/props/c07"
	"verifharness/xstate"
)

func main() {
	cli.Main(map[string]func([]string){
		"C07":       c07.Main,
		"c07worker": c07.Worker,
	}, map[string]xstate.Factory{})
}
