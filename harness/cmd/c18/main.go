package main

import (
	"encoding/json"
	"flag"
	"fmt"
	"os"
	"os/exec"
	"sort"
	"strings"
	"time"

	"verifharness/cli"
	"verifharness/evidence"
	"verifharness/props/c18"
	"verifharness/subproc"
	"verifharness/world"
)

func main() {
	cli.Main(map[string]func([]string){
		"C18":       run,
		"c18worker": func([]string) { subproc.Serve(c18.Handle) },
		"c18race":   racePass,
		"C05T":      func(a []string) { threadPart("C05T", clockScenarios, c05tRule, 3, 4, a) },
		"C06T":      func(a []string) { threadPart("C06T", crashScenarios, c06tRule, 2, 3, a) },
		"c18points": func(a []string) { // debugging aid: print the scheduling points of one execution
			var c c18.Case
			json.Unmarshal([]byte(a[0]), &c)
			r, err := c18.RunOne(c.Scenario, c.Prefix, true, true)
			fmt.Println("err:", err, "outcome:", r.Outcome)
			for i, p := range r.Verdict.Points {
				fmt.Printf("%3d enabled=%v chosen=%d %s %s\n", i, p.Enabled, p.Chosen, p.Op, p.Site)
			}
			for _, pr := range r.Problems {
				fmt.Println("problem:", pr.Oracle, pr.Sig, pr.Detail)
			}
		},
	}, nil)
}

func scenarios(tier string) []c18.Scenario {
	T := func(calls ...c18.Call) []c18.Call { return calls }
	two := []c18.Scenario{
		{Name: "comment-shared || comment-shared", Threads: [][]c18.Call{T(c18.CCommentShared), T(c18.CCommentShared)}},
		{Name: "comment-shared || title-shared", Threads: [][]c18.Call{T(c18.CCommentShared), T(c18.CTitleShared)}},
		{Name: "new || new", Threads: [][]c18.Call{T(c18.CNew), T(c18.CNew)}},
		{Name: "new || comment-shared", Threads: [][]c18.Call{T(c18.CNew), T(c18.CCommentShared)}},
		{Name: "comment-own || comment-own", Threads: [][]c18.Call{T(c18.CCommentOwn), T(c18.CCommentOwn)}},
		{Name: "comment-shared || query-open", Threads: [][]c18.Call{T(c18.CCommentShared), T(c18.CQueryOpen)}},
		{Name: "comment-shared || query-search", Threads: [][]c18.Call{T(c18.CCommentShared), T(c18.CQuerySearch)}},
		{Name: "new || query-search", Threads: [][]c18.Call{T(c18.CNew), T(c18.CQuerySearch)}},
		{Name: "comment-shared || query-nil", Threads: [][]c18.Call{T(c18.CCommentShared), T(c18.CQueryNil)}},
		{Name: "comment-shared || excerpt+prefix", Threads: [][]c18.Call{T(c18.CCommentShared), T(c18.CExcerpt, c18.CPrefix)}},
		{Name: "comment-shared || snapshot", Threads: [][]c18.Call{T(c18.CCommentShared), T(c18.CSnapshot)}},
		{Name: "setmeta-shared || comment-shared", Threads: [][]c18.Call{T(c18.CSetMetaShared), T(c18.CCommentShared)}},
		{Name: "new || query-open", Threads: [][]c18.Call{T(c18.CNew), T(c18.CQueryOpen)}},
		{Name: "cold: comment-shared || comment-shared", Cold: true, Threads: [][]c18.Call{T(c18.CCommentShared), T(c18.CCommentShared)}},
		{Name: "cold: comment-shared || snapshot+excerpt", Cold: true, Threads: [][]c18.Call{T(c18.CCommentShared), T(c18.CSnapshot, c18.CExcerpt)}},
		{Name: "io: new || new", IO: true, Threads: [][]c18.Call{T(c18.CNew), T(c18.CNew)}},
		{Name: "io: comment-shared || comment-own", IO: true, Threads: [][]c18.Call{T(c18.CCommentShared), T(c18.CCommentOwn)}},
		{Name: "size1: comment-shared || comment-other", Size: 1, Threads: [][]c18.Call{T(c18.CCommentShared), T(c18.CCommentOther)}},
		{Name: "size1: comment-own || comment-own", Size: 1, Threads: [][]c18.Call{T(c18.CCommentOwn), T(c18.CCommentOwn)}},
		{Name: "size1: comment-shared || new", Size: 1, Threads: [][]c18.Call{T(c18.CCommentShared), T(c18.CNew)}},
	}
	if tier != "thorough" {
		return two
	}
	three := []c18.Scenario{
		{Name: "comment-shared || title-shared || comment-shared", Threads: [][]c18.Call{T(c18.CCommentShared), T(c18.CTitleShared), T(c18.CCommentShared)}},
		{Name: "new || comment-shared || query-open", Threads: [][]c18.Call{T(c18.CNew), T(c18.CCommentShared), T(c18.CQueryOpen)}},
		{Name: "comment-shared+comment-own || title-shared+new", Threads: [][]c18.Call{T(c18.CCommentShared, c18.CCommentOwn), T(c18.CTitleShared, c18.CNew)}},
	}
	return append(two, three...)
}

func run(args []string) {
	fs := flag.NewFlagSet("C18", flag.ExitOnError)
	replay := fs.String("replay", "", "replay file")
	boundFlag := fs.Int("bound", -1, "preemption bound override")
	only := fs.String("only", "", "run only scenarios whose name contains this")
	fs.Parse(args)
	if *replay != "" {
		os.Exit(doReplay(*replay))
	}
	tier := evidence.Tier()
	rep := evidence.NewReporter("C18")
	start := time.Now()
	budget := 170 * time.Second
	if tier == "thorough" {
		budget = 25 * time.Minute
	}
	deadline := start.Add(budget)
	total := c18newStats()
	harnessErr := false
	exhaustive := true
	var perScenario []map[string]any
	var samples []any
	var scs []c18.Scenario
	for _, sc := range scenarios(tier) {
		if *only == "" || strings.Contains(sc.Name, *only) {
			scs = append(scs, sc)
		}
	}
	remaining := len(scs)
	for _, sc := range scs {
		bound := 2
		if tier == "thorough" && len(sc.Threads) == 2 {
			bound = 3
		}
		if *boundFlag >= 0 {
			bound = *boundFlag
		}
		st := c18newStats()
		completed := -1
		prevFound := map[string]c18.Found{}
		// iterate the bound: everything with 0 preemptions, then 1, then 2 ...; the evidence
		// reports the last bound that was explored completely
		first := 1
		if bound < 1 {
			first = bound
		}
		scDeadline := time.Now().Add(time.Until(deadline) / time.Duration(remaining))
		remaining--
		for b := first; b <= bound; b++ {
			cur := c18newStats()
			rootCase, _ := json.Marshal(c18.Case{Scenario: sc, Bound: b, RootOnly: true})
			rr, err := subproc.Run([]string{"c18worker"}, []string{string(rootCase)}, 1)
			if err != nil || rr[0].Crashed {
				fmt.Fprintln(os.Stderr, "harness error: root execution of", sc.Name, err, rr[0].Stderr)
				harnessErr = true
				break
			}
			var root c18.Stats
			json.Unmarshal(rr[0].Out, &root)
			if root.Err != "" {
				fmt.Fprintln(os.Stderr, "harness error:", sc.Name, root.Err)
				harnessErr = true
				break
			}
			cur.Merge(&root)
			var cases []string
			for _, br := range root.Branches {
				cj, _ := json.Marshal(c18.Case{Scenario: sc, Prefix: br.Prefix, Used: br.Used, Bound: b, Deadline: scDeadline.Unix()})
				cases = append(cases, string(cj))
			}
			results, err := subproc.Run([]string{"c18worker"}, cases, 0)
			if err != nil {
				fmt.Fprintln(os.Stderr, "harness error:", err)
				harnessErr = true
			}
			for _, r := range results {
				if r.Crashed {
					fmt.Fprintln(os.Stderr, "harness error: worker died:", r.Stderr)
					harnessErr = true
					continue
				}
				var s c18.Stats
				json.Unmarshal(r.Out, &s)
				if s.Err != "" {
					fmt.Fprintln(os.Stderr, "harness error:", sc.Name, s.Err)
					harnessErr = true
				}
				cur.Merge(&s)
			}
			st = cur // bound b subsumes bound b-1
			if cur.Truncated {
				exhaustive = false
				break
			}
			completed = b
			// counterexamples found with fewer preemptions are the easiest to explain: keep them
			for k, f := range prevFound {
				cf := cur.Found[k]
				f.Count = cf.Count
				if f.Count == 0 {
					f.Count = 1
				}
				cur.Found[k] = f
			}
			prevFound = cur.Found
		}
		fmt.Fprintf(os.Stderr, "C18 %-55s bound<=%d: executions=%d points=%d distinct outcomes=%d problems=%d\n", sc.Name, completed, st.Execs, st.Points, len(st.Outcomes), len(st.Found))
		perScenario = append(perScenario, map[string]any{"scenario": sc.Name, "threads": sc.Threads, "cache_size": sc.Size, "completed_preemption_bound": completed,
			"executions": st.Execs, "scheduling_points": st.Points, "max_points_per_execution": st.MaxPoints, "distinct_outcomes": len(st.Outcomes), "outcomes": st.Outcomes})
		keys := make([]string, 0, len(st.Found))
		for k := range st.Found {
			keys = append(keys, k)
		}
		sort.Strings(keys)
		for _, k := range keys {
			f := st.Found[k]
			rep.Report(evidence.Report{Oracle: f.Oracle, Sig: f.Sig, Count: f.Count,
				Detail: fmt.Sprintf("scenario %q, schedule %v: %s", sc.Name, f.Choices, f.Detail),
				Replay: map[string]any{"scenario": sc, "choices": f.Choices}})
		}
		if len(samples) < 4 {
			samples = append(samples, map[string]any{"scenario": sc.Name, "threads": sc.Threads, "example_outcome": firstKey(st.Outcomes)})
		}
		total.Merge(st)
	}
	racePassResult := runRacePass()
	cov := map[string]any{
		"race_detector_pass": racePassResult,
		"states":             total.Execs, "transitions": total.Points, "traces_validated_against_impl": total.Execs,
		"samples": samples, "exhaustive": exhaustive && !harnessErr, "scenarios": perScenario, "distinct_outcomes": len(total.Outcomes),
		"rule": "states = complete executions (schedules) explored, transitions = scheduling points executed; for every scenario all schedules with at most the completed number of preemptions (deviation-bounded DFS: replay a choice prefix, then always continue the running thread) at the lock and atomic operations of the rewritten packages",
	}
	ev := evidence.Evidence{PropertyID: "C18", Tier: tier, Seed: evidence.Seed(), Level: "model_checking", Coverage: cov,
		Assumptions: []string{
			"scheduling points are the acquiring operations of sync.Mutex/RWMutex/WaitGroup/Once and sync/atomic in packages cache, repository, entity, util/lamport, util/interrupt (import rewrite by overlay); code between two points runs atomically",
			"code outside the rewritten packages (go-git, bleve, lru) never blocks on a lock held across a scheduling point",
			"unsynchronised accesses are not scheduling points: a data race that needs a preemption between two plain memory accesses is outside this exploration",
			"2-3 threads, 1-2 calls each; calls that start goroutines internally (pull, build, close) are excluded",
		},
		WallS: time.Since(start).Seconds(), Violations: rep.Viol, Known: rep.KnownSeen()}
	if err := ev.Write(); err != nil {
		fmt.Fprintln(os.Stderr, "harness error:", err)
		os.Exit(2)
	}
	fmt.Printf("C18: executions=%d points=%d distinct outcomes=%d exhaustive=%v violations=%d wall=%.1fs\n", total.Execs, total.Points, len(total.Outcomes), exhaustive, rep.Viol, time.Since(start).Seconds())
	if harnessErr && rep.Viol == 0 {
		os.Exit(2)
	}
	rep.Exit()
}

// racePass is run in the -race build of this binary (see ./check): free-running goroutines.
func racePass([]string) {
	var scs []c18.Scenario
	for _, sc := range scenarios("thorough") {
		if sc.Size == 0 { // evicting scenarios really deadlock (known finding): they would only hang
			scs = append(scs, sc)
		}
	}
	rep := c18.RacePass(scs, 6, []int{1, 4, 16})
	logp := os.Getenv("VERIF_RACE_LOG")
	b, _ := json.Marshal(rep)
	os.WriteFile(logp+".summary.json", b, 0o644)
}

// runRacePass starts the -race build (if ./check built one) and returns its report.
func runRacePass() map[string]any {
	bin := os.Getenv("VERIF_C18_RACE_BIN")
	if bin == "" {
		return map[string]any{"ran": false, "why": "no -race build (quick tier)"}
	}
	dir, err := os.MkdirTemp(world.ScratchRoot(), "race")
	if err != nil {
		return map[string]any{"ran": false, "why": err.Error()}
	}
	defer os.RemoveAll(dir)
	logp := dir + "/race"
	cmd := exec.Command(bin, "c18race")
	cmd.Env = append(os.Environ(), "GORACE=log_path="+logp+" halt_on_error=0 exitcode=0", "VERIF_RACE_LOG="+logp)
	cmd.Stderr = os.Stderr
	done := make(chan error, 1)
	go func() { done <- cmd.Run() }()
	select {
	case err := <-done:
		if err != nil {
			return map[string]any{"ran": false, "why": "race pass failed: " + err.Error()}
		}
	case <-time.After(20 * time.Minute):
		cmd.Process.Kill()
		return map[string]any{"ran": false, "why": "race pass exceeded 20 minutes"}
	}
	var rep c18.RaceReport
	if b, err := os.ReadFile(logp + ".summary.json"); err == nil {
		json.Unmarshal(b, &rep)
	}
	os.Remove(logp + ".summary.json")
	rep.Races = c18.CollectRaces(logp)
	return map[string]any{"ran": true, "report": rep,
		"note": "free-running goroutines in a -race build of the same harness bodies; a data-race detector pass, NOT part of the exhaustive exploration and not used for the verdict"}
}

func c18newStats() *c18.Stats {
	return &c18.Stats{Outcomes: map[string]int{}, Found: map[string]c18.Found{}}
}

func firstKey(m map[string]int) string {
	var ks []string
	for k := range m {
		ks = append(ks, k)
	}
	sort.Strings(ks)
	if len(ks) == 0 {
		return ""
	}
	return ks[0]
}

func doReplay(path string) int {
	b, err := os.ReadFile(path)
	if err != nil {
		fmt.Fprintln(os.Stderr, err)
		return 2
	}
	var f struct {
		Oracle string `json:"oracle"`
		Sig    string `json:"sig"`
		Replay struct {
			Scenario c18.Scenario `json:"scenario"`
			Choices  []int        `json:"choices"`
		} `json:"replay"`
	}
	if err := json.Unmarshal(b, &f); err != nil {
		fmt.Fprintln(os.Stderr, err)
		return 2
	}
	cj, _ := json.Marshal(c18.Case{Scenario: f.Replay.Scenario, Prefix: f.Replay.Choices, RootOnly: true, Bound: 0})
	rr, err := subproc.Run([]string{"c18worker"}, []string{string(cj)}, 1)
	if err != nil || rr[0].Crashed {
		fmt.Fprintln(os.Stderr, "replay failed:", err, rr[0].Stderr)
		return 2
	}
	var st c18.Stats
	json.Unmarshal(rr[0].Out, &st)
	for k, fd := range st.Found {
		fmt.Printf("  %s: %s\n", k, fd.Detail)
		if k == f.Oracle+"|"+f.Sig {
			fmt.Println("reproduced")
			return 1
		}
	}
	fmt.Println("not reproduced", st.Err)
	return 0
}

// ---- C05T: the logical clock of a repository handle under threads --------------------------------
//
// Run by ./check C05 from a second build of this binary (the scheduler needs the sync overlay). It
// explores the clock scenarios, prints one JSON document on stdout and leaves reporting, known
// findings and the evidence file to the C05 harness.

func clockScenarios(tier string) []c18.Scenario {
	T := func(calls ...c18.Call) []c18.Call { return calls }
	// the in-memory scenarios come first: they take about a second, and the time budget is shared
	// evenly among the scenarios that are still to run
	var scs []c18.Scenario
	for _, impl := range []string{"bare", "mock"} {
		n := "in-memory clock (" + impl + "): "
		scs = append(scs,
			c18.Scenario{Name: n + "witness(+10) || witness(+20)+read", MemClock: impl, Threads: [][]c18.Call{T(c18.CClockWitness), T(c18.CClockWitnessHigh, c18.CClockRead)}},
			c18.Scenario{Name: n + "witness(+10)+increment || witness(+20)+increment", MemClock: impl, Threads: [][]c18.Call{T(c18.CClockWitness, c18.CClockInc), T(c18.CClockWitnessHigh, c18.CClockInc)}},
			c18.Scenario{Name: n + "increment+increment || witness(+10)+read", MemClock: impl, Threads: [][]c18.Call{T(c18.CClockInc, c18.CClockInc), T(c18.CClockWitness, c18.CClockRead)}})
		if tier == "thorough" {
			scs = append(scs,
				c18.Scenario{Name: n + "increment || witness(+10) || witness(+20)+read", MemClock: impl, Threads: [][]c18.Call{T(c18.CClockInc), T(c18.CClockWitness), T(c18.CClockWitnessHigh, c18.CClockRead)}})
		}
	}
	scs = append(scs, []c18.Scenario{
		{Name: "clock: increment || increment", Clock: true, IO: true, Threads: [][]c18.Call{T(c18.CClockInc), T(c18.CClockInc)}},
		{Name: "clock: increment || witness", Clock: true, IO: true, Threads: [][]c18.Call{T(c18.CClockInc), T(c18.CClockWitness)}},
		{Name: "clock: increment+increment || witness", Clock: true, IO: true, Threads: [][]c18.Call{T(c18.CClockInc, c18.CClockInc), T(c18.CClockWitness)}},
	}...)
	if tier == "thorough" {
		scs = append(scs,
			c18.Scenario{Name: "clock: increment || increment || witness", Clock: true, IO: true, Threads: [][]c18.Call{T(c18.CClockInc), T(c18.CClockInc), T(c18.CClockWitness)}},
			c18.Scenario{Name: "clock: increment+witness || witness+increment", Clock: true, IO: true, Threads: [][]c18.Call{T(c18.CClockInc, c18.CClockWitness), T(c18.CClockWitness, c18.CClockInc)}})
	}
	return scs
}

type c05tFound struct {
	Oracle   string       `json:"oracle"`
	Sig      string       `json:"sig"`
	Detail   string       `json:"detail"`
	Count    int          `json:"count"`
	Scenario c18.Scenario `json:"scenario"`
	Choices  []int        `json:"choices"`
}

const c05tRule = "all schedules of the listed threads with at most the completed number of preemptions; scheduling points are the lock operations of packages repository and util/lamport, the atomic operations of util/lamport and the file operations of the local storage (clock files); persisted flavour: the repository handle is freshly opened without clock loaders, so the first use of the clock happens under the threads; in-memory flavours: a bare lamport.MemClock and the clock of repository.NewMockRepo()"

const c06tRule = "crash-in-schedule: all schedules (at most the completed number of preemptions) of one thread writing the bugs-edit clock and one thread doing what dag.merge does for a fetched new bug (witness its times, CopyRef); scheduling points are lock and atomic operations and the file operations of the local storage (TempFile, Create, OpenFile, Rename, Remove); at every scheduling point after the merging thread has returned, and at the end, the on-disk state is a crash image: distinct images (by clock files, local bug refs, rebuild marker) are copied, opened with OpenGoGitRepo + bug.ClockLoader and must hold clocks at or above every time stored under a local bug ref; open-crash: OpenGoGitRepo + bug.ClockLoader on a repository with three bugs and one or both clock files missing: the state before every mutating file operation of the local storage (clock temp file, rename, rebuild marker create and remove) and the final state are crash images, and for every such operation k a run in which operation k and every later one return an error; every resulting state is opened again with the loader and judged the same way"

// crashScenarios: the crash-in-schedule scenarios of C06.
func crashScenarios(tier string) []c18.Scenario {
	T := func(calls ...c18.Call) []c18.Call { return calls }
	scs := []c18.Scenario{
		{Name: "crash-in-schedule: witness(far) || merge-new-remote-bug", Clock: true, Crash: true, IO: true, Threads: [][]c18.Call{T(c18.CClockWitnessFar), T(c18.CMergeNew)}},
		{Name: "crash-in-schedule: increment || merge-new-remote-bug", Clock: true, Crash: true, IO: true, Threads: [][]c18.Call{T(c18.CClockInc), T(c18.CMergeNew)}},
	}
	for _, missing := range []string{"edit", "create", "edit,create"} {
		scs = append(scs, c18.Scenario{Name: "open-crash: OpenGoGitRepo + clock loader, missing clock file(s): " + missing, OpenCrash: missing})
	}
	if tier == "thorough" {
		scs = append(scs,
			c18.Scenario{Name: "crash-in-schedule: increment+witness(far) || merge-new-remote-bug", Clock: true, Crash: true, IO: true, Threads: [][]c18.Call{T(c18.CClockInc, c18.CClockWitnessFar), T(c18.CMergeNew)}},
			c18.Scenario{Name: "crash-in-schedule: witness(far) || increment || merge-new-remote-bug", Clock: true, Crash: true, IO: true, Threads: [][]c18.Call{T(c18.CClockWitnessFar), T(c18.CClockInc), T(c18.CMergeNew)}})
	}
	return scs
}

func threadPart(cmdName string, scenarios func(string) []c18.Scenario, rule string, boundQuick, boundThorough int, args []string) {
	fs := flag.NewFlagSet(cmdName, flag.ExitOnError)
	replay := fs.String("replay", "", "replay file")
	fs.Parse(args)
	if *replay != "" {
		os.Exit(doReplay(*replay))
	}
	tier := evidence.Tier()
	budget := 60 * time.Second
	maxBound := boundQuick
	if tier == "thorough" {
		budget, maxBound = 10*time.Minute, boundThorough
	}
	deadline := time.Now().Add(budget)
	out := map[string]any{}
	var found []c05tFound
	var per []map[string]any
	execs, points := 0, 0
	exhaustive, harnessErr := true, false
	scs := scenarios(tier)
	for i, sc := range scs {
		scDeadline := time.Now().Add(time.Until(deadline) / time.Duration(len(scs)-i))
		st := c18newStats()
		completed := 0
		prev := map[string]c18.Found{}
		for b := 1; b <= maxBound; b++ {
			cur := c18newStats()
			rootCase, _ := json.Marshal(c18.Case{Scenario: sc, Bound: b, RootOnly: true})
			rr, err := subproc.Run([]string{"c18worker"}, []string{string(rootCase)}, 1)
			if err != nil || rr[0].Crashed {
				fmt.Fprintln(os.Stderr, "harness error: root execution of", sc.Name, err, rr[0].Stderr)
				harnessErr = true
				break
			}
			var root c18.Stats
			json.Unmarshal(rr[0].Out, &root)
			if root.Err != "" {
				fmt.Fprintln(os.Stderr, "harness error:", sc.Name, root.Err)
				harnessErr = true
				break
			}
			cur.Merge(&root)
			var cases []string
			for _, br := range root.Branches {
				cj, _ := json.Marshal(c18.Case{Scenario: sc, Prefix: br.Prefix, Used: br.Used, Bound: b, Deadline: scDeadline.Unix()})
				cases = append(cases, string(cj))
			}
			results, err := subproc.Run([]string{"c18worker"}, cases, 0)
			if err != nil {
				fmt.Fprintln(os.Stderr, "harness error:", err)
				harnessErr = true
			}
			for _, r := range results {
				if r.Crashed {
					fmt.Fprintln(os.Stderr, "harness error: worker died:", r.Stderr)
					harnessErr = true
					continue
				}
				var s c18.Stats
				json.Unmarshal(r.Out, &s)
				if s.Err != "" {
					fmt.Fprintln(os.Stderr, "harness error:", sc.Name, s.Err)
					harnessErr = true
				}
				cur.Merge(&s)
			}
			st = cur
			if cur.Truncated {
				exhaustive = false
				break
			}
			completed = b
			for k, f := range prev {
				cf := cur.Found[k]
				f.Count = cf.Count
				if f.Count == 0 {
					f.Count = 1
				}
				cur.Found[k] = f
			}
			prev = cur.Found
		}
		fmt.Fprintf(os.Stderr, cmdName+" threads %-45s bound<=%d: executions=%d points=%d distinct outcomes=%d problems=%d\n", sc.Name, completed, st.Execs, st.Points, len(st.Outcomes), len(st.Found))
		per = append(per, map[string]any{"scenario": sc.Name, "threads": sc.Threads, "completed_preemption_bound": completed, "executions": st.Execs,
			"scheduling_points": st.Points, "distinct_outcomes": len(st.Outcomes), "outcomes": st.Outcomes})
		execs += st.Execs
		points += st.Points
		keys := make([]string, 0, len(st.Found))
		for k := range st.Found {
			keys = append(keys, k)
		}
		sort.Strings(keys)
		for _, k := range keys {
			f := st.Found[k]
			found = append(found, c05tFound{Oracle: f.Oracle, Sig: f.Sig, Detail: f.Detail, Count: f.Count, Scenario: sc, Choices: f.Choices})
		}
	}
	out["executions"], out["scheduling_points"], out["scenarios"] = execs, points, per
	out["exhaustive"], out["harness_error"], out["found"] = exhaustive && !harnessErr, harnessErr, found
	out["rule"] = rule
	b, _ := json.Marshal(out)
	fmt.Println(string(b))
}
