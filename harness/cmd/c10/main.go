package main

import (
	"verifharness/cli"
	"verifharness/props/c10"
	"verifharness/xstate"
)

func main() {
	cli.Main(map[string]func([]string){
		"C10": c10.Main,
	}, map[string]xstate.Factory{})
}
