package main

import (
	"verifharness/cli"
	"verifharness/props/c11"
	"verifharness/xstate"
)

func main() {
	cli.Main(map[string]func([]string){
		"C11": c11.Main,
	}, map[string]xstate.Factory{"c11w": c11.New})
}
