package main

import (
	"verifharness/cli"
	"verifharness/props/c17"
	"verifharness/xstate"
)

func main() {
	cli.Main(map[string]func([]string){
		"C17":       c17.Main,
		"c17worker": c17.Worker,
	}, map[string]xstate.Factory{})
}
