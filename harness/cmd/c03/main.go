package main

import (
	"encoding/json"
	"flag"
	"fmt"
	"os"
	"time"

	"verifharness/cli"
	"verifharness/evidence"
	"verifharness/props/c03b"
	"verifharness/props/syncrun"
	"verifharness/props/syncw"
	"verifharness/xstate"
)

// C03 = space A (every state of the sync-world exploration: histories git-bug itself produces)
// + space B (hand-crafted histories, package c03b).
func run(args []string) {
	fs := flag.NewFlagSet("C03", flag.ExitOnError)
	replay := fs.String("replay", "", "replay file")
	only := fs.String("space", "AB", "spaces to run (A, B or AB)")
	depth := fs.Int("depth", 0, "override the depth of space A")
	fs.StringVar(&c03b.OnlyFamily, "bfam", "", "development aid: run only the space-B families whose name contains this")
	fs.Parse(args)
	if *replay != "" {
		os.Exit(replayFile(*replay))
	}
	tier := evidence.Tier()
	seed := uint64(evidence.Seed())
	rep := evidence.NewReporter("C03")
	start := time.Now()
	cov := map[string]any{}
	harnessErr := false
	exhaustive := true
	var samples []any
	states, transitions, traces := 0, 0, 0
	rule := ""
	if *only != "B" {
		a, herr := syncrun.Explore("C03A", tier, seed, *depth, rep)
		harnessErr = harnessErr || herr
		cov["space_a"] = a
		states += a["states"].(int)
		transitions += a["transitions"].(int)
		traces += a["traces_validated_against_impl"].(int)
		exhaustive = exhaustive && a["exhaustive"].(bool)
		if s, ok := a["samples"].([]any); ok {
			samples = append(samples, s...)
		}
		rule = "space A: " + a["rule"].(string) + "; "
		delete(a, "samples")
	}
	if *only != "A" {
		budget := 6 * time.Minute
		if tier == "thorough" {
			budget = 12 * time.Minute
		}
		b, herr := c03b.Run(tier, seed, rep, time.Now().Add(budget))
		if b == nil {
			fmt.Fprintln(os.Stderr, "harness error: space B did not run")
			os.Exit(2)
		}
		harnessErr = harnessErr || herr
		cov["space_b"] = b
		// every crafted history is one state of space B; every read/merge of it by git-bug, compared
		// with the reference reader, is one validated execution of the implementation
		n := b["histories"].(int)
		states += n
		transitions += n
		traces += n
		exhaustive = exhaustive && b["exhaustive"].(bool)
		if s, ok := b["samples"].([]any); ok {
			samples = append(samples, s...)
		}
		rule += b["rule"].(string)
		delete(b, "samples")
	}
	cov["states"] = states
	cov["transitions"] = transitions
	cov["traces_validated_against_impl"] = traces
	cov["exhaustive"] = exhaustive
	cov["samples"] = samples
	cov["rule"] = rule
	assumptions := append([]string{}, syncrun.Assumptions...)
	assumptions = append(assumptions,
		"space B: the reference reader (harness/refmodel) decodes the documented tree layout itself and decides validity and the (edit time, pack id) order from the statement; git-bug's reader is never consulted for the expected result",
		"space B: operations in crafted packs are real bug operations marshalled by git-bug's own encoders and authored by identities stored in the repository; only clocks, parents and pack placement are crafted",
		"space B: histories about which the statement is silent (two clock entries of different value in one commit, ordinary commit without operations, merge commit further than 1 000 000 from every parent) are only required to give the same outcome everywhere and a causal order when ordered",
	)
	ev := evidence.Evidence{PropertyID: "C03", Tier: tier, Seed: int(seed), Level: "model_checking", Coverage: cov,
		Assumptions: assumptions, WallS: time.Since(start).Seconds(), Violations: rep.Viol, Known: rep.KnownSeen()}
	if err := ev.Write(); err != nil {
		fmt.Fprintln(os.Stderr, "harness error: cannot write evidence:", err)
		os.Exit(2)
	}
	fmt.Printf("C03: states=%d transitions=%d exhaustive=%v violations=%d wall=%.1fs\n", states, transitions, exhaustive, rep.Viol, time.Since(start).Seconds())
	if harnessErr && rep.Viol == 0 {
		os.Exit(2)
	}
	rep.Exit()
}

func replayFile(path string) int {
	b, err := os.ReadFile(path)
	if err != nil {
		fmt.Fprintln(os.Stderr, err)
		return 2
	}
	var f struct {
		Replay struct {
			Space string `json:"space"`
		} `json:"replay"`
	}
	if err := json.Unmarshal(b, &f); err != nil {
		fmt.Fprintln(os.Stderr, err)
		return 2
	}
	if f.Replay.Space == "B" {
		return c03b.Replay(path)
	}
	return syncrun.Replay(path)
}

func main() {
	cli.Main(map[string]func([]string){
		"C03":        run,
		"c03bworker": c03b.Worker,
		"c03bdump":   c03b.Dump,
		"c03bcount":  c03b.Count,
	}, map[string]xstate.Factory{"syncw": syncw.New})
}
