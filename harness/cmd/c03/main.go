package main

import (
	"verifharness/cli"
	"verifharness/props/syncrun"
	"verifharness/props/syncw"
	"verifharness/xstate"
)

func main() {
	cli.Main(map[string]func([]string){
		"C03": func(a []string) { syncrun.Run("C03A", a) },
	}, map[string]xstate.Factory{"syncw": syncw.New})
}
