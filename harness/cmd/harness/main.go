// harness is the single binary behind ./check: `harness <property> ...` runs a check,
// `harness xworker <model> <params>` serves the explicit-state explorer.
package main

import (
	"encoding/json"
	"fmt"
	"os"
	"runtime/pprof"
	"strconv"
	"time"

	"verifharness/props/syncw"
	"verifharness/world"
	"verifharness/xstate"
)

// models: explicit-state models served by `harness xworker`; commands: property checks and
// auxiliary worker sub-commands. Both are filled by init() functions in reg_*.go files.
var models = map[string]xstate.Factory{
	"syncw": syncw.New,
}

var commands = map[string]func(args []string){}

func main() {
	if len(os.Args) < 2 {
		fmt.Fprintln(os.Stderr, "usage: harness <property|xworker> ...")
		os.Exit(2)
	}
	switch os.Args[1] {
	case "xworker":
		f := models[os.Args[2]]
		if f == nil {
			fmt.Fprintln(os.Stderr, "unknown model", os.Args[2])
			os.Exit(2)
		}
		scratch := world.ScratchRoot()
		defer os.RemoveAll(scratch)
		xstate.Worker(f, os.Args[3], scratch)
		os.RemoveAll(scratch)
	case "xprof":
		// harness xprof <model> <params> <pathjson> <n> <cpu.prof>
		f := models[os.Args[2]]
		scratch := world.ScratchRoot()
		var path []string
		json.Unmarshal([]byte(os.Args[4]), &path)
		n, _ := strconv.Atoi(os.Args[5])
		pf, _ := os.Create(os.Args[6])
		pprof.StartCPUProfile(pf)
		t0 := time.Now()
		for i := 0; i < n; i++ {
			if _, _, err := xstate.Exec(f, os.Args[3], scratch, path); err != nil {
				fmt.Println(err)
			}
		}
		pprof.StopCPUProfile()
		fmt.Println("per exec:", time.Since(t0)/time.Duration(n))
		os.RemoveAll(scratch)
	case "xreplay":
		f := models[os.Args[2]]
		if f == nil {
			fmt.Fprintln(os.Stderr, "unknown model", os.Args[2])
			os.Exit(2)
		}
		scratch := world.ScratchRoot()
		xstate.ReplayMain(f, os.Args[3], scratch, os.Args[4])
		os.RemoveAll(scratch)
	case "C01", "C02", "C03A", "C05A":
		runSync(os.Args[1], os.Args[2:])
	default:
		if c := commands[os.Args[1]]; c != nil {
			c(os.Args[2:])
			return
		}
		fmt.Fprintln(os.Stderr, "unknown command", os.Args[1])
		os.Exit(2)
	}
}
