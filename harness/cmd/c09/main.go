package main

import (
	"encoding/json"
	"flag"
	"fmt"
	"os"
	"sort"
	"strings"
	"time"

	"verifharness/cli"
	"verifharness/evidence"
	"verifharness/props/c09craft"
	"verifharness/props/c11"
	"verifharness/props/idw"
	"verifharness/subproc"
	"verifharness/xstate"
)

func main() {
	cli.Main(map[string]func([]string){
		"C09":      run,
		"c09craft": func([]string) { subproc.Serve(c09craft.Handle) },
	}, map[string]xstate.Factory{"idw": idw.New, "c11w": c11.New})
}

func run(args []string) {
	fs := flag.NewFlagSet("C09", flag.ExitOnError)
	replay := fs.String("replay", "", "replay file")
	depthOverride := fs.Int("depth", 0, "override depth")
	fs.Parse(args)
	if *replay != "" {
		os.Exit(doReplay(*replay))
	}
	tier := evidence.Tier()
	seed := uint64(evidence.Seed())
	rep := evidence.NewReporter("C09")
	start := time.Now()
	harnessErr := false

	// ---- part 1: explicit-state exploration of mutate/push/pull on two replicas
	type runCfg struct {
		name   string
		p      idw.Params
		depth  int
		budget time.Duration
	}
	runs := []runCfg{{"one shared identity", idw.Params{Seed: seed}, 7, 100 * time.Second},
		{"shared identity + 2 bystander identities", idw.Params{Seed: seed, Others: 2}, 5, 80 * time.Second},
		{"one shared identity, the replicas' logical clocks may advance independently", idw.Params{Seed: seed, Ticks: 1}, 5, 75 * time.Second}}
	if tier == "thorough" {
		runs = []runCfg{{"one shared identity", idw.Params{Seed: seed}, 9, 12 * time.Minute},
			{"shared identity + 2 bystander identities", idw.Params{Seed: seed, Others: 2}, 7, 10 * time.Minute},
			{"shared identity + 2 bystander identities, second nonce stream", idw.Params{Seed: seed + 1, Others: 2}, 6, 5 * time.Minute},
			{"one shared identity, the replicas' logical clocks may advance independently", idw.Params{Seed: seed, Ticks: 2}, 7, 8 * time.Minute}}
	}
	states, trans := 0, 0
	exhaustive := true
	var runInfo []map[string]any
	var samples []any
	outcomes := map[string]int{}
	for _, r := range runs {
		d := r.depth
		if *depthOverride > 0 {
			d = *depthOverride
		}
		fmt.Fprintf(os.Stderr, "== C09: %s (depth %d)\n", r.name, d)
		res := xstate.Run(xstate.Config{Property: "C09", Model: "idw", Params: r.p.String(), MaxDepth: d,
			Deadline: time.Now().Add(r.budget), CrashIsViolation: true, Log: os.Stderr})
		states += res.States
		trans += res.Transitions
		exhaustive = exhaustive && res.Exhaustive
		for k, v := range res.Outcomes {
			outcomes[k] += v
		}
		runInfo = append(runInfo, map[string]any{"configuration": r.name, "params": r.p, "max_depth": d, "completed_depth": res.CompletedDepth,
			"states": res.States, "transitions": res.Transitions, "new_states_per_depth": res.PerDepth})
		for _, s := range res.Samples {
			samples = append(samples, map[string]any{"configuration": r.name, "path": s})
		}
		for _, e := range res.HarnessErrors {
			fmt.Fprintln(os.Stderr, "harness error:", e)
			harnessErr = true
		}
		sort.Slice(res.Found, func(i, j int) bool { return len(res.Found[i].Path) < len(res.Found[j].Path) })
		for _, fd := range res.Found {
			n := xstate.Reproductions("idw", r.p.String(), fd, 5)
			rep.Report(evidence.Report{Oracle: fd.Oracle, Sig: fd.Sig,
				Detail: fmt.Sprintf("[%s] after %v: %s (reproduced %d/5)", r.name, fd.Path, fd.Detail, n),
				Replay: map[string]any{"kind": "xstate", "model": "idw", "params": r.p, "path": fd.Path}, Count: res.SigCount[fd.Oracle+"|"+fd.Sig]})
		}
	}

	// ---- part 1b: identity histories through the cache. The cache intercepts merges and keeps instances
	// in memory; here the same identity is edited on two replicas, one of them leaving a mutation
	// uncommitted across a pull (the cache world of C11 restricted to the identity actions; only the
	// append-only oracle of this property is taken from it).
	{
		cdepth, cbudget := 5, 60*time.Second
		if tier == "thorough" {
			cdepth, cbudget = 7, 8*time.Minute
		}
		if *depthOverride > 0 {
			cdepth = *depthOverride
		}
		cp := c11.Params{Seed: seed, Kinds: "idstage,idcommit,idmutate,pull,push", KindsB: "idmutateother,push,pull"}
		fmt.Fprintf(os.Stderr, "== C09: identity histories through the cache, a mutation pending across a pull (depth %d)\n", cdepth)
		res := xstate.Run(xstate.Config{Property: "C09", Model: "c11w", Params: cp.String(), MaxDepth: cdepth,
			Deadline: time.Now().Add(cbudget), CrashIsViolation: true, Log: os.Stderr})
		states += res.States
		trans += res.Transitions
		exhaustive = exhaustive && res.Exhaustive
		runInfo = append(runInfo, map[string]any{"configuration": "identity histories through the cache (A: idstage/idcommit/idmutate/pull/push, B: idmutateother/push/pull)", "params": cp,
			"max_depth": cdepth, "completed_depth": res.CompletedDepth, "states": res.States, "transitions": res.Transitions, "new_states_per_depth": res.PerDepth})
		for _, e := range res.HarnessErrors {
			fmt.Fprintln(os.Stderr, "harness error:", e)
			harnessErr = true
		}
		sort.Slice(res.Found, func(i, j int) bool { return len(res.Found[i].Path) < len(res.Found[j].Path) })
		for _, fd := range res.Found {
			if !strings.HasPrefix(fd.Oracle, "c09.") && fd.Oracle != "crash" {
				continue // what the cache serves is C11's subject
			}
			n := xstate.Reproductions("c11w", cp.String(), fd, 5)
			rep.Report(evidence.Report{Oracle: fd.Oracle, Sig: fd.Sig,
				Detail: fmt.Sprintf("[through the cache] after %v: %s (reproduced %d/5)", fd.Path, fd.Detail, n),
				Replay: map[string]any{"kind": "xstate", "model": "c11w", "params": cp, "path": fd.Path}, Count: res.SigCount[fd.Oracle+"|"+fd.Sig]})
		}
	}

	// ---- part 2: crafted version chains
	names := c09craft.SortedCaseNames()
	results, err := subproc.Run([]string{"c09craft"}, names, 0)
	if err != nil {
		fmt.Fprintln(os.Stderr, "harness error:", err)
		harnessErr = true
	}
	cases := c09craft.Cases()
	verdicts := map[string]int{}
	classes := map[string]bool{}
	for i, r := range results {
		c := cases[i]
		class := c09craft.Class(c.Name)
		classes[class] = true
		report := func(oracle, sig, detail string) {
			rep.Report(evidence.Report{Oracle: oracle, Sig: sig, Detail: "crafted identity chain " + c.Name + ": " + detail,
				Replay: map[string]any{"kind": "craft", "case": c.Name}, Count: 1})
		}
		if r.Crashed {
			verdicts["crash"]++
			report("c09.crash", "crash/"+class, "the process died in identity.MergeAll: "+lastLine(r.Stderr))
			continue
		}
		var o c09craft.Outcome
		if err := json.Unmarshal(r.Out, &o); err != nil || o.Err != "" {
			fmt.Fprintln(os.Stderr, "harness error: case", c.Name, err, o.Err)
			harnessErr = true
			continue
		}
		verdicts[o.Status]++
		accepted := o.Status == "new" || o.Status == "updated"
		if c.MustReject && accepted {
			report("c09.reject", "accepted/"+class, fmt.Sprintf("reported %s, the statement requires rejection", o.Status))
		}
		if c.MustReject && o.LocalAfter != o.LocalBefore && !onlyBystander(o) {
			report("c09.reject", "local-changed/"+class, fmt.Sprintf("local identity refs changed: %s -> %s", o.LocalBefore, o.LocalAfter))
		}
		if c.Control && !accepted {
			report("c09.control", "valid-chain-refused/"+class, fmt.Sprintf("a valid chain was reported %s", o.Status))
		}
		if !o.Readable {
			report("c09.readable", "local-unreadable-after/"+class, "a local identity is unreadable after the merge")
		}
		if !o.OtherMerged {
			report("c09.others", "bystander-not-merged/"+statusClass(o.Status), fmt.Sprintf("a valid identity served beside this one (reported %s) was not merged", o.Status))
		}
	}
	// ---- part 3: identity API sequences (in-process, no git transport)
	seqLen := 5
	if tier == "thorough" {
		seqLen = 6
	}
	seqs := c09craft.Sequences(seqLen)
	seqProblems := map[string]int{}
	for _, sq := range seqs {
		r := c09craft.RunSequence(sq)
		if r.Sig == "harness" {
			fmt.Fprintln(os.Stderr, "harness error: sequence", r.Seq, r.Problem)
			harnessErr = true
			continue
		}
		if r.Sig != "" {
			seqProblems[r.Sig]++
			rep.Report(evidence.Report{Oracle: "c09.api", Sig: r.Sig, Detail: "identity API sequence [new " + r.Seq + "]: " + r.Problem,
				Replay: map[string]any{"kind": "apiseq", "seq": sq}, Count: 1})
		}
	}
	cov := map[string]any{
		"api_sequences": len(seqs), "api_sequence_max_length": seqLen, "api_sequence_problems": seqProblems,
		"states": states, "transitions": trans + len(results) + len(seqs), "traces_validated_against_impl": trans + len(results) + len(seqs),
		"exhaustive": exhaustive, "runs": runInfo, "samples": append(samples, map[string]any{"crafted_case": names[len(names)/2]}),
		"transition_outcomes": outcomes, "crafted_cases": len(results), "crafted_classes": len(classes), "crafted_verdicts": verdicts,
		"rule": "part 1: breadth-first over all interleavings of mutate/push/pull of one identity on two replicas (states deduplicated by refs, clocks and seam counters), every pull compared with the prefix-relation model of fast-forward merging; part 2: every defect class of the catalogue at every version position of chains of length 1..3, merged by the real identity.MergeAll in a subprocess; part 3: all sequences up to the stated length over {SetMetadata, Id, Mutate name, Commit} on a fresh identity: the id once observed never changes, every commit reads back under that id, earlier stored versions are never rewritten",
	}
	ev := evidence.Evidence{PropertyID: "C09", Tier: tier, Seed: int(seed), Level: "model_checking", Coverage: cov,
		Assumptions: []string{"real identity.Fetch/Push/MergeAll on go-git repositories on tmpfs, in-process transport",
			"crafted chains follow the documented version JSON layout; only the defect classes the statement names must be rejected, other oddities are only required not to crash or damage local data",
			"key changes are not part of the mutation alphabet (C08 covers keys)"},
		WallS: time.Since(start).Seconds(), Violations: rep.Viol, Known: rep.KnownSeen()}
	if err := ev.Write(); err != nil {
		fmt.Fprintln(os.Stderr, "harness error:", err)
		os.Exit(2)
	}
	fmt.Printf("C09: states=%d transitions=%d crafted=%d exhaustive=%v violations=%d wall=%.1fs\n", states, trans, len(results), exhaustive, rep.Viol, time.Since(start).Seconds())
	if harnessErr && rep.Viol == 0 {
		os.Exit(2)
	}
	rep.Exit()
}

func onlyBystander(o c09craft.Outcome) bool {
	// the bystander identity legitimately adds one local ref
	// ... and nothing else: every ref that existed before must still point to the same commit (a count
	// alone would let "bystander added AND the victim's own ref moved" through)
	after := map[string]bool{}
	for _, r := range strings.Split(o.LocalAfter, ";") {
		after[r] = true
	}
	for _, r := range strings.Split(o.LocalBefore, ";") {
		if r != "" && !after[r] {
			return false
		}
	}
	return o.OtherMerged && countRefs(o.LocalAfter) == countRefs(o.LocalBefore)+1
}

func countRefs(s string) int {
	if s == "" {
		return 0
	}
	n := 1
	for _, c := range s {
		if c == ';' {
			n++
		}
	}
	return n
}

func statusClass(s string) string {
	if len(s) > 5 && s[:5] == "error" {
		return "error"
	}
	return s
}

func lastLine(s string) string {
	for i := 0; i < len(s); i++ {
		if len(s)-i > 6 && s[i:i+6] == "panic:" {
			j := i
			for j < len(s) && s[j] != '\n' {
				j++
			}
			return s[i:j]
		}
	}
	if len(s) > 200 {
		return s[len(s)-200:]
	}
	return s
}

func doReplay(path string) int {
	b, err := os.ReadFile(path)
	if err != nil {
		fmt.Fprintln(os.Stderr, err)
		return 2
	}
	var f struct {
		Oracle string `json:"oracle"`
		Sig    string `json:"sig"`
		Replay struct {
			Kind   string          `json:"kind"`
			Model  string          `json:"model"`
			Params json.RawMessage `json:"params"`
			Path   []string        `json:"path"`
			Case   string          `json:"case"`
			Seq    []string        `json:"seq"`
		} `json:"replay"`
	}
	if err := json.Unmarshal(b, &f); err != nil {
		fmt.Fprintln(os.Stderr, err)
		return 2
	}
	if f.Replay.Kind == "apiseq" {
		r := c09craft.RunSequence(f.Replay.Seq)
		fmt.Printf("sequence %v: %s %s\n", f.Replay.Seq, r.Sig, r.Problem)
		if r.Sig == f.Sig {
			fmt.Println("reproduced")
			return 1
		}
		fmt.Println("not reproduced")
		return 0
	}
	if f.Replay.Kind == "craft" {
		res, err := subproc.Run([]string{"c09craft"}, []string{f.Replay.Case}, 1)
		if err != nil {
			fmt.Fprintln(os.Stderr, err)
			return 2
		}
		fmt.Printf("case %s: crashed=%v outcome=%s\n", f.Replay.Case, res[0].Crashed, string(res[0].Out))
		fmt.Println("compare with the recorded violation above; exit 1 when the case still crashes or is still accepted")
		if res[0].Crashed {
			return 1
		}
		var o c09craft.Outcome
		json.Unmarshal(res[0].Out, &o)
		if (o.Status == "new" || o.Status == "updated") && f.Oracle == "c09.reject" {
			return 1
		}
		if !o.OtherMerged && f.Oracle == "c09.others" {
			return 1
		}
		return 0
	}
	viol, trace, crashed, err := xstate.ReplayOnce("idw", string(f.Replay.Params), f.Replay.Path)
	if err != nil {
		fmt.Fprintln(os.Stderr, "replay error:", err)
		return 2
	}
	for _, t := range trace {
		fmt.Println("  step:", t)
	}
	if crashed {
		fmt.Println("the process died during the last step")
		return 1
	}
	for _, v := range viol {
		fmt.Printf("  violation %s|%s: %s\n", v.Oracle, v.Sig, v.Detail)
		if v.Oracle == f.Oracle && v.Sig == f.Sig {
			fmt.Println("reproduced")
			return 1
		}
	}
	fmt.Println("not reproduced")
	return 0
}
