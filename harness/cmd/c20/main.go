package main

import (
	"verifharness/cli"
	"verifharness/props/c20"
	"verifharness/xstate"
)

func main() {
	cli.Main(map[string]func([]string){
		"C20": c20.Main,
	}, map[string]xstate.Factory{})
}
