package main

import (
	"verifharness/cli"
	"verifharness/props/c16"
	"verifharness/xstate"
)

func main() {
	cli.Main(map[string]func([]string){
		"C16":       c16.Main,
		"c16worker": c16.Worker,
	}, map[string]xstate.Factory{})
}
