package main

import (
	"verifharness/cli"
	"verifharness/props/c14"
	"verifharness/xstate"
)

func main() {
	cli.Main(map[string]func([]string){
		"C14": c14.Main,
	}, map[string]xstate.Factory{"c14w": c14.New})
}
