package main

import (
	"verifharness/cli"
	"verifharness/props/c19"
	"verifharness/xstate"
)

func main() {
	cli.Main(map[string]func([]string){
		"C19":       c19.Main,
		"c19holder": c19.Holder,
	}, map[string]xstate.Factory{})
}
