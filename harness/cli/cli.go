// Package cli is the common entry point of the per-property binaries: it serves the worker
// sub-commands of the engines and dispatches to the property's own commands.
package cli

import (
	"encoding/json"
	"fmt"
	"os"
	"runtime/pprof"
	"strconv"
	"time"

	"verifharness/world"
	"verifharness/xstate"
)

// Main dispatches os.Args[1]: xworker / xreplay / xprof (engine X) or one of commands.
func Main(commands map[string]func(args []string), models map[string]xstate.Factory) {
	if len(os.Args) < 2 {
		fmt.Fprintln(os.Stderr, "usage: <binary> <command> ...")
		os.Exit(2)
	}
	model := func(name string) xstate.Factory {
		f := models[name]
		if f == nil {
			fmt.Fprintln(os.Stderr, "unknown model", name)
			os.Exit(2)
		}
		return f
	}
	switch os.Args[1] {
	case "xworker":
		scratch := world.ScratchRoot()
		xstate.Worker(model(os.Args[2]), os.Args[3], scratch)
		os.RemoveAll(scratch)
	case "xreplay":
		scratch := world.ScratchRoot()
		xstate.ReplayMain(model(os.Args[2]), os.Args[3], scratch, os.Args[4])
		os.RemoveAll(scratch)
	case "xprof":
		// xprof <model> <params> <pathjson> <n> <cpu.prof>
		f := model(os.Args[2])
		scratch := world.ScratchRoot()
		var path []string
		json.Unmarshal([]byte(os.Args[4]), &path)
		n, _ := strconv.Atoi(os.Args[5])
		pf, _ := os.Create(os.Args[6])
		pprof.StartCPUProfile(pf)
		t0 := time.Now()
		for i := 0; i < n; i++ {
			if _, _, err := xstate.Exec(f, os.Args[3], scratch, path); err != nil {
				fmt.Println(err)
			}
		}
		pprof.StopCPUProfile()
		fmt.Println("per exec:", time.Since(t0)/time.Duration(n))
		os.RemoveAll(scratch)
	default:
		if c := commands[os.Args[1]]; c != nil {
			c(os.Args[2:])
			return
		}
		fmt.Fprintln(os.Stderr, "unknown command", os.Args[1])
		os.Exit(2)
	}
}
