// Package xstate is the explicit-state explorer (engine X): breadth-first search over action
// sequences executed on real objects. A state is the action sequence that reaches it; successors
// are produced in worker subprocesses by re-creating the world, replaying the path and applying
// one more action. States are deduplicated by the model's canonical key.
package xstate

import (
	"bufio"
	"encoding/json"
	"fmt"
	"io"
	"os"
	"os/exec"
	"runtime"
	"sort"
	"sync"
	"time"
)

// Violation is one oracle failure. Sig identifies the failing shape (used to group reports and to
// match known findings); Detail is free text for the replay file.
type Violation struct {
	Oracle string `json:"oracle"`
	Sig    string `json:"sig"`
	Detail string `json:"detail"`
}

// Model is a world under exploration. One Model value lives for one execution (replay + one action).
type Model interface {
	// Init builds the initial state in a fresh directory. Must be deterministic.
	Init(dir string) error
	// Actions lists the actions enabled in the current state, simplest first.
	Actions() []string
	// Apply executes one action. outcome is a short tag for statistics; violations come from
	// transition oracles. err is reserved for harness failures (never a property violation).
	Apply(action string) (outcome string, viol []Violation, err error)
	// Key returns the canonical state key.
	Key() (string, error)
	// Check evaluates the state oracles. It runs last on a world that is then discarded, so it
	// may modify the world. tags feed the statistics.
	Check() (tags []string, viol []Violation, err error)
	Close()
}

// Factory creates a model from the opaque parameter string given to workers.
type Factory func(params string) (Model, error)

// ---- worker side ----------------------------------------------------------------------------

type request struct {
	Path []string `json:"path"`
	Skip int      `json:"skip"` // actions [0,skip) were already handled
	// Replay: only replay Path (last element is the action under test) and report.
	Replay bool `json:"replay"`
}

type line struct {
	T       string      `json:"t"` // actions | succ | done | err
	Actions []string    `json:"actions,omitempty"`
	Action  string      `json:"action,omitempty"`
	Key     string      `json:"key,omitempty"`
	Outcome string      `json:"outcome,omitempty"`
	Tags    []string    `json:"tags,omitempty"`
	Viol    []Violation `json:"viol,omitempty"`
	Err     string      `json:"err,omitempty"`
	Trace   []string    `json:"trace,omitempty"`
}

// Exec runs path on a fresh model and returns what the last step observed. With an empty path it
// reports the initial state.
func Exec(f Factory, params, scratch string, path []string) (actions []string, ln line, err error) {
	// a fixed path per worker process: models may keep a template of their initial world next to it
	dir := scratch + "/w"
	_ = os.RemoveAll(dir)
	if err := os.MkdirAll(dir, 0o755); err != nil {
		return nil, ln, err
	}
	defer os.RemoveAll(dir)
	m, err := f(params)
	if err != nil {
		return nil, ln, err
	}
	defer m.Close()
	if err := m.Init(dir); err != nil {
		return nil, ln, fmt.Errorf("init: %w", err)
	}
	ln.T = "succ"
	for i, a := range path {
		outcome, viol, err := m.Apply(a)
		if err != nil {
			return nil, ln, fmt.Errorf("apply %s (step %d): %w", a, i, err)
		}
		ln.Trace = append(ln.Trace, a+" -> "+outcome)
		if i == len(path)-1 {
			ln.Action = a
			ln.Outcome = outcome
			ln.Viol = viol
		}
	}
	actions = m.Actions()
	ln.Key, err = m.Key()
	if err != nil {
		return nil, ln, fmt.Errorf("key: %w", err)
	}
	tags, viol, err := m.Check()
	if err != nil {
		return nil, ln, fmt.Errorf("check: %w", err)
	}
	ln.Tags = tags
	ln.Viol = append(ln.Viol, viol...)
	return actions, ln, nil
}

// Worker serves expansion requests on stdin/stdout until EOF.
func Worker(f Factory, params, scratch string) {
	in := bufio.NewReaderSize(os.Stdin, 1<<20)
	out := bufio.NewWriter(os.Stdout)
	emit := func(l line) {
		b, _ := json.Marshal(l)
		out.Write(b)
		out.WriteByte('\n')
		out.Flush()
	}
	for {
		raw, err := in.ReadBytes('\n')
		if err != nil {
			return
		}
		var req request
		if err := json.Unmarshal(raw, &req); err != nil {
			emit(line{T: "err", Err: "bad request: " + err.Error()})
			continue
		}
		if req.Replay {
			_, ln, err := Exec(f, params, scratch, req.Path)
			if err != nil {
				emit(line{T: "err", Err: err.Error()})
			} else {
				emit(ln)
			}
			emit(line{T: "done"})
			continue
		}
		actions, ln, err := Exec(f, params, scratch, req.Path)
		if err != nil {
			emit(line{T: "err", Err: err.Error()})
			emit(line{T: "done"})
			continue
		}
		_ = ln
		emit(line{T: "actions", Actions: actions})
		for i, a := range actions {
			if i < req.Skip {
				continue
			}
			p := append(append([]string{}, req.Path...), a)
			_, ln, err := Exec(f, params, scratch, p)
			if err != nil {
				emit(line{T: "err", Action: a, Err: err.Error()})
				continue
			}
			emit(ln)
		}
		emit(line{T: "done"})
	}
}

// ---- coordinator side -----------------------------------------------------------------------

type Config struct {
	Property string
	Model    string // worker sub-command argument
	Params   string
	MaxDepth int
	Deadline time.Time
	Workers  int
	// CrashIsViolation: a worker process that dies while executing an action is reported as a
	// violation (oracle "crash") instead of a harness error.
	CrashIsViolation bool
	// MaxPerSig bounds how many counterexamples are kept per violation signature.
	Log io.Writer
}

type Found struct {
	Violation
	Path []string `json:"path"`
}

type Result struct {
	States         int
	Transitions    int
	CompletedDepth int
	Exhaustive     bool            // all levels up to MaxDepth completed
	Outcomes       map[string]int  // action-kind/outcome tag -> count
	Tags           map[string]int  // state tag -> count
	PerDepth       []int           // new states per depth
	Found          []Found         // first (shortest) counterexample per signature
	SigCount       map[string]int  // occurrences per signature
	HarnessErrors  []string
	Samples        [][]string
	DistinctOutcomes int
}

type wproc struct {
	cmd *exec.Cmd
	in  io.WriteCloser
	out *bufio.Reader
}

func startWorker(cfg Config) (*wproc, error) {
	exe, err := os.Executable()
	if err != nil {
		return nil, err
	}
	cmd := exec.Command(exe, "xworker", cfg.Model, cfg.Params)
	cmd.Stderr = os.Stderr
	cmd.Env = append(os.Environ(), "GOMAXPROCS=2")
	in, err := cmd.StdinPipe()
	if err != nil {
		return nil, err
	}
	outp, err := cmd.StdoutPipe()
	if err != nil {
		return nil, err
	}
	if err := cmd.Start(); err != nil {
		return nil, err
	}
	return &wproc{cmd: cmd, in: in, out: bufio.NewReaderSize(outp, 1<<20)}, nil
}

func (w *wproc) stop() {
	if w == nil {
		return
	}
	w.in.Close()
	done := make(chan struct{})
	go func() { w.cmd.Wait(); close(done) }()
	select {
	case <-done:
	case <-time.After(5 * time.Second):
		w.cmd.Process.Kill()
		<-done
	}
}

type expansion struct {
	path  []string
	succ  []line
	errs  []string
	crash []string // actions during which the worker died
}

// expand asks a worker for all successors of path; on worker death the action being executed is
// recorded as a crash and the expansion continues in a fresh worker.
func expand(cfg Config, wp **wproc, path []string) expansion {
	ex := expansion{path: path}
	skip := 0
	var actions []string
	for attempt := 0; attempt < 64; attempt++ {
		if *wp == nil {
			w, err := startWorker(cfg)
			if err != nil {
				ex.errs = append(ex.errs, "start worker: "+err.Error())
				return ex
			}
			*wp = w
		}
		w := *wp
		b, _ := json.Marshal(request{Path: path, Skip: skip})
		if _, err := w.in.Write(append(b, '\n')); err != nil {
			w.stop()
			*wp = nil
			continue
		}
		handled := skip
		died := false
		for {
			raw, err := w.out.ReadBytes('\n')
			if err != nil {
				died = true
				break
			}
			var l line
			if err := json.Unmarshal(raw, &l); err != nil {
				ex.errs = append(ex.errs, "bad worker line: "+string(raw))
				continue
			}
			switch l.T {
			case "actions":
				actions = l.Actions
			case "succ":
				ex.succ = append(ex.succ, l)
				handled++
			case "err":
				ex.errs = append(ex.errs, fmt.Sprintf("path %v action %q: %s", path, l.Action, l.Err))
				if l.Action != "" {
					handled++
				}
			case "done":
				return ex
			}
		}
		if died {
			w.stop()
			*wp = nil
			if actions == nil {
				// died while replaying the path itself: its last action crashed earlier and was
				// reported there; nothing to expand.
				ex.errs = append(ex.errs, fmt.Sprintf("worker died while replaying %v", path))
				return ex
			}
			if handled < len(actions) {
				ex.crash = append(ex.crash, actions[handled])
				skip = handled + 1
				if skip >= len(actions) {
					return ex
				}
				continue
			}
			return ex
		}
	}
	return ex
}

// Run explores breadth-first up to cfg.MaxDepth or the deadline.
func Run(cfg Config) Result {
	if cfg.Workers <= 0 {
		cfg.Workers = runtime.NumCPU()
	}
	logf := func(format string, a ...any) {
		if cfg.Log != nil {
			fmt.Fprintf(cfg.Log, format+"\n", a...)
		}
	}
	res := Result{Outcomes: map[string]int{}, Tags: map[string]int{}, SigCount: map[string]int{}}
	seen := map[string]bool{}
	haveSig := map[string]bool{}
	var mu sync.Mutex

	record := func(path []string, l line) (isNew bool) {
		// caller holds mu
		for _, t := range l.Tags {
			res.Tags[t]++
		}
		for _, v := range l.Viol {
			res.SigCount[v.Oracle+"|"+v.Sig]++
			if !haveSig[v.Oracle+"|"+v.Sig] {
				haveSig[v.Oracle+"|"+v.Sig] = true
				res.Found = append(res.Found, Found{Violation: v, Path: append([]string{}, path...)})
			}
		}
		if !seen[l.Key] {
			seen[l.Key] = true
			return true
		}
		return false
	}

	// initial state
	var wp0 *wproc
	{
		w, err := startWorker(cfg)
		if err != nil {
			res.HarnessErrors = append(res.HarnessErrors, err.Error())
			return res
		}
		wp0 = w
		b, _ := json.Marshal(request{Path: []string{}, Replay: true})
		w.in.Write(append(b, '\n'))
		ok := false
		for {
			raw, err := w.out.ReadBytes('\n')
			if err != nil {
				res.HarnessErrors = append(res.HarnessErrors, "worker died on the initial state")
				break
			}
			var l line
			json.Unmarshal(raw, &l)
			if l.T == "succ" {
				record(nil, l)
				ok = true
			} else if l.T == "err" {
				res.HarnessErrors = append(res.HarnessErrors, "initial state: "+l.Err)
			} else if l.T == "done" {
				break
			}
		}
		w.stop()
		wp0 = nil
		_ = wp0
		if !ok {
			return res
		}
	}
	res.States = 1
	res.PerDepth = []int{1}
	frontier := [][]string{{}}

	for depth := 1; depth <= cfg.MaxDepth && len(frontier) > 0; depth++ {
		var next [][]string
		jobs := make(chan []string, len(frontier))
		for _, p := range frontier {
			jobs <- p
		}
		close(jobs)
		var wg sync.WaitGroup
		aborted := false
		nw := cfg.Workers
		if nw > len(frontier) {
			nw = len(frontier)
		}
		for i := 0; i < nw; i++ {
			wg.Add(1)
			go func() {
				defer wg.Done()
				var wp *wproc
				defer func() { wp.stop() }()
				for p := range jobs {
					if !cfg.Deadline.IsZero() && time.Now().After(cfg.Deadline) {
						mu.Lock()
						aborted = true
						mu.Unlock()
						continue
					}
					ex := expand(cfg, &wp, p)
					mu.Lock()
					for _, l := range ex.succ {
						res.Transitions++
						res.Outcomes[kind(l.Action)+" -> "+l.Outcome]++
						np := append(append([]string{}, p...), l.Action)
						if record(np, l) {
							next = append(next, np)
						}
					}
					for _, a := range ex.crash {
						res.Transitions++
						np := append(append([]string{}, p...), a)
						if cfg.CrashIsViolation {
							sig := "crash|" + kind(a)
							res.SigCount[sig]++
							if !haveSig[sig] {
								haveSig[sig] = true
								res.Found = append(res.Found, Found{Violation: Violation{Oracle: "crash", Sig: kind(a), Detail: "the process died while executing " + a}, Path: np})
							}
						} else {
							res.HarnessErrors = append(res.HarnessErrors, fmt.Sprintf("worker died executing %v", np))
						}
					}
					res.HarnessErrors = append(res.HarnessErrors, ex.errs...)
					mu.Unlock()
				}
			}()
		}
		wg.Wait()
		if aborted {
			logf("deadline reached during depth %d; completed depth %d", depth, res.CompletedDepth)
			res.States += len(next) // partial level still counts as visited states
			break
		}
		sort.Slice(next, func(i, j int) bool { return less(next[i], next[j]) })
		res.CompletedDepth = depth
		res.States += len(next)
		res.PerDepth = append(res.PerDepth, len(next))
		logf("depth %d: frontier %d -> new states %d, transitions so far %d, violations signatures %d", depth, len(frontier), len(next), res.Transitions, len(res.Found))
		if len(res.Samples) < 6 && len(next) > 0 {
			res.Samples = append(res.Samples, next[len(next)/2])
		}
		frontier = next
		if len(res.HarnessErrors) > 50 {
			break
		}
	}
	res.Exhaustive = res.CompletedDepth == cfg.MaxDepth || len(frontier) == 0
	res.DistinctOutcomes = len(res.Outcomes)
	return res
}

func less(a, b []string) bool {
	for i := 0; i < len(a) && i < len(b); i++ {
		if a[i] != b[i] {
			return a[i] < b[i]
		}
	}
	return len(a) < len(b)
}

// kind strips the arguments from an action label: "edit(A,2)" -> "edit".
func kind(a string) string {
	for i := 0; i < len(a); i++ {
		if a[i] == '(' {
			return a[:i]
		}
	}
	return a
}

// ReplayOnce re-executes path in a fresh subprocess and returns the observations of its last step.
func ReplayOnce(model, params string, path []string) (viol []Violation, trace []string, crashed bool, err error) {
	exe, err := os.Executable()
	if err != nil {
		return nil, nil, false, err
	}
	pj, _ := json.Marshal(path)
	cmd := exec.Command(exe, "xreplay", model, params, string(pj))
	cmd.Stderr = os.Stderr
	out, runErr := cmd.Output()
	var l line
	if jerr := json.Unmarshal(out, &l); jerr != nil {
		if runErr != nil {
			return nil, nil, true, nil
		}
		return nil, nil, false, fmt.Errorf("bad replay output: %s", string(out))
	}
	if l.T == "err" {
		return nil, nil, false, fmt.Errorf("%s", l.Err)
	}
	return l.Viol, l.Trace, false, nil
}

// ReplayMain is the body of the xreplay sub-command.
func ReplayMain(f Factory, params, scratch, pathJSON string) {
	var path []string
	if err := json.Unmarshal([]byte(pathJSON), &path); err != nil {
		fmt.Println(`{"t":"err","err":"bad path"}`)
		return
	}
	_, ln, err := Exec(f, params, scratch, path)
	if err != nil {
		b, _ := json.Marshal(line{T: "err", Err: err.Error()})
		fmt.Println(string(b))
		return
	}
	b, _ := json.Marshal(ln)
	fmt.Println(string(b))
}

// Reproductions re-runs a counterexample n times and counts how often the same signature shows.
func Reproductions(model, params string, fd Found, n int) int {
	c := 0
	for i := 0; i < n; i++ {
		viol, _, crashed, err := ReplayOnce(model, params, fd.Path)
		if err != nil {
			continue
		}
		if crashed && fd.Oracle == "crash" {
			c++
			continue
		}
		for _, v := range viol {
			if v.Oracle == fd.Oracle && v.Sig == fd.Sig {
				c++
				break
			}
		}
	}
	return c
}
