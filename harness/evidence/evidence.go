// Package evidence writes /verif/evidence/<id>.json, replay files, VIOLATION / KNOWN-FINDING lines.
package evidence

import (
	"crypto/sha256"
	"encoding/hex"
	"encoding/json"
	"fmt"
	"os"
	"path/filepath"
	"regexp"
	"strconv"
	"time"
)

// Root is the /verif directory (VERIF_HOME overrides).
func Root() string {
	if v := os.Getenv("VERIF_HOME"); v != "" {
		return v
	}
	return "/verif"
}

func Tier() string {
	if v := os.Getenv("VERIF_TIER"); v == "thorough" {
		return "thorough"
	}
	return "quick"
}

func Seed() int {
	n, _ := strconv.Atoi(os.Getenv("VERIF_SEED"))
	return n
}

type Evidence struct {
	PropertyID  string         `json:"property_id"`
	Tier        string         `json:"tier"`
	Seed        int            `json:"seed"`
	Level       string         `json:"level"`
	Coverage    map[string]any `json:"coverage"`
	Assumptions []string       `json:"assumptions"`
	WallS       float64        `json:"wall_s"`
	Violations  int            `json:"violations"`
	Known       []string       `json:"known_findings_seen,omitempty"`
}

func (e *Evidence) Write() error {
	// runs against a patched copy of the repository (VERIF_REPO != /repo: self tests, seeded changes)
	// must not overwrite the evidence of the real tree
	dir := filepath.Join(Root(), "evidence")
	if v := os.Getenv("VERIF_EVIDENCE_DIR"); v != "" {
		dir = v
	}
	_ = os.MkdirAll(dir, 0o755)
	b, err := json.MarshalIndent(e, "", " ")
	if err != nil {
		return err
	}
	return os.WriteFile(filepath.Join(dir, e.PropertyID+".json"), append(b, '\n'), 0o644)
}

// Finding is one entry of known_findings.json.
type Finding struct {
	Property string `json:"property"`
	// Match is a regular expression over "<oracle>|<sig>" of a violation.
	Match  string `json:"match"`
	What   string `json:"what"`
	Status string `json:"status"` // "known" or "fixed"
	Commit string `json:"commit,omitempty"`
}

type KnownFile struct {
	Findings []Finding `json:"findings"`
	Fixed    []string  `json:"fixed"`
}

func LoadKnown() ([]Finding, error) {
	b, err := os.ReadFile(filepath.Join(Root(), "known_findings.json"))
	if os.IsNotExist(err) {
		return nil, nil
	}
	if err != nil {
		return nil, err
	}
	var k KnownFile
	if err := json.Unmarshal(b, &k); err != nil {
		return nil, err
	}
	return k.Findings, nil
}

// Report is a violation ready to be printed.
type Report struct {
	Oracle string
	Sig    string
	Detail string
	Replay any // serialisable description sufficient to re-execute
	Count  int
}

// Reporter collects violations of one check run and settles the exit status.
type Reporter struct {
	Property string
	known    []Finding
	Viol     int
	KnownHit map[string]bool
	reported map[string]bool
	start    time.Time
}

func NewReporter(prop string) *Reporter {
	k, err := LoadKnown()
	if err != nil {
		fmt.Fprintln(os.Stderr, "harness error: known_findings.json:", err)
		os.Exit(2)
	}
	return &Reporter{Property: prop, known: k, KnownHit: map[string]bool{}, start: time.Now()}
}

func (r *Reporter) Elapsed() float64 { return time.Since(r.start).Seconds() }

// Report prints either a KNOWN-FINDING line (violation listed in known_findings.json with status
// "known") or writes a replay file and prints a VIOLATION line.
func (r *Reporter) Report(rep Report) {
	key := rep.Oracle + "|" + rep.Sig
	for _, f := range r.known {
		if f.Property != r.Property || f.Status != "known" {
			continue
		}
		if ok, _ := regexp.MatchString("^(?:"+f.Match+")$", key); ok {
			if !r.KnownHit[f.Match] {
				r.KnownHit[f.Match] = true
				fmt.Printf("KNOWN-FINDING: property=%s %s [%s]\n", r.Property, f.What, key)
			}
			return
		}
	}
	if r.reported == nil {
		r.reported = map[string]bool{}
	}
	if r.reported[key] {
		return
	}
	r.reported[key] = true
	r.Viol++
	h := sha256.Sum256([]byte(key))
	name := fmt.Sprintf("%s-%s.json", r.Property, hex.EncodeToString(h[:])[:10])
	dir := filepath.Join(Root(), "replays")
	_ = os.MkdirAll(dir, 0o755)
	path := filepath.Join(dir, name)
	b, _ := json.MarshalIndent(map[string]any{
		"property": r.Property, "oracle": rep.Oracle, "sig": rep.Sig, "detail": rep.Detail,
		"occurrences": rep.Count, "replay": rep.Replay,
	}, "", " ")
	_ = os.WriteFile(path, append(b, '\n'), 0o644)
	fmt.Printf("VIOLATION property=%s replay=%s\n", r.Property, path)
	fmt.Printf("  oracle=%s sig=%s occurrences=%d\n  %s\n", rep.Oracle, rep.Sig, rep.Count, rep.Detail)
}

// KnownSeen lists the known findings that showed up in this run.
func (r *Reporter) KnownSeen() []string {
	var out []string
	for k := range r.KnownHit {
		out = append(out, k)
	}
	return out
}

// Exit terminates with the contract's status.
func (r *Reporter) Exit() {
	if r.Viol > 0 {
		os.Exit(1)
	}
	os.Exit(0)
}
