#!/bin/bash
# Run once after a fresh restore, offline: pre-builds the overlay generator and the harness so that
# later per-check rebuilds hit the Go build cache. Every check still rebuilds from /repo's tree.
set -eu
export GOFLAGS=-mod=mod GOPROXY=off GOSUMDB=off GOTOOLCHAIN=local
# github.com/99designs/keyring probes the D-Bus session bus in a package init(); without an address godbus
# autolaunches dbus-launch, which leaves one dbus-daemon behind per process start (pid exhaustion).
export DBUS_SESSION_BUS_ADDRESS="${DBUS_SESSION_BUS_ADDRESS:-unix:path=/nonexistent}"
cd "$(dirname "$0")"
H="$(pwd)"
mkdir -p .build/bin evidence replays
( cd tools && go build -o "$H/.build/bin/overlaygen" ./overlaygen )
REPO="${VERIF_REPO:-/repo}"
for flavour in plain sync; do
  B="$H/.build/setup-$flavour"
  rm -rf "$B"; mkdir -p "$B/overlay" "$B/out"
  f=""; pk="./cmd/..."
  if [ "$flavour" = sync ]; then f="-sync"; pk="./cmd/c18"; [ -d harness/cmd/c18 ] || continue; fi
  .build/bin/overlaygen -repo "$REPO" -shim "$H/shim" -out "$B/overlay" $f
  sed "s#@REPO@#$REPO#" harness/go.mod.tmpl > "$B/harness.mod"
  cp "$REPO/go.sum" "$B/harness.sum"
  ( cd harness && go build -tags verif -modfile "$B/harness.mod" -overlay "$B/overlay/overlay.json" -o "$B/out/" $pk )
  rm -rf "$B/out"
done
( cd "$REPO" && go build -o "$H/.build/bin/git-bug-setup" . )
echo "setup ok"
