// Package vtime stands in for time.Now in the packages that stamp data.
package vtime

import (
	"time"

	"github.com/MichaelMure/git-bug/verifshim/vctl"
)

// Now mirrors time.Now.
func Now() time.Time {
	if t, ok := vctl.Now(); ok {
		return t
	}
	return time.Now()
}
