// Package vrand stands in for crypto/rand in the packages that draw nonces.
package vrand

import (
	crand "crypto/rand"
	"io"

	"github.com/MichaelMure/git-bug/verifshim/vctl"
)

type reader struct{}

func (reader) Read(b []byte) (int, error) { return Read(b) }

// Reader mirrors crypto/rand.Reader.
var Reader io.Reader = reader{}

// Read mirrors crypto/rand.Read.
func Read(b []byte) (int, error) {
	if vctl.RandRead(b) {
		return len(b), nil
	}
	return crand.Read(b)
}
