// Package vsync stands in for sync (placeholder: aliases; replaced by the scheduler-aware version).
package vsync

import "sync"

type Mutex = sync.Mutex
type RWMutex = sync.RWMutex
type WaitGroup = sync.WaitGroup
type Once = sync.Once
type Map = sync.Map
type Locker = sync.Locker
