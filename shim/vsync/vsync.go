// Package vsync stands in for "sync" in the rewritten git-bug packages (only in the C18 build).
//
// Without an installed scheduler, or when called from a goroutine that is not a registered
// scheduler thread, every type behaves exactly like its sync counterpart (it embeds the real
// primitive). Inside a controlled run, acquiring operations are scheduling points of the
// cooperative scheduler in sched.go: exactly one registered thread runs at a time and an operation
// is only executed when the model state of the primitive allows it, so blocking, deadlock and
// every interleaving of lock acquisitions are decided by the explorer, not by the Go runtime.
package vsync

import "sync"

type Locker = sync.Locker
type Map = sync.Map
type Pool = sync.Pool

// Mutex mirrors sync.Mutex.
type Mutex struct {
	real  sync.Mutex
	owner *Thread // model state (controlled runs)
}

func (m *Mutex) Lock() {
	if t := current(); t != nil {
		t.s.yield(t, &op{kind: opMutexLock, mu: m})
		m.real.Lock()
		return
	}
	m.real.Lock()
}

func (m *Mutex) Unlock() {
	if t := current(); t != nil {
		t.s.release(func() { m.owner = nil })
	}
	m.real.Unlock()
}

func (m *Mutex) TryLock() bool {
	if t := current(); t != nil {
		ok := false
		t.s.yield(t, &op{kind: opTry, try: func() {
			if m.owner == nil {
				m.owner = t
				ok = true
			}
		}})
		if ok {
			m.real.Lock()
		}
		return ok
	}
	return m.real.TryLock()
}

// RWMutex mirrors sync.RWMutex including Go's writer preference: a Lock that has been announced
// blocks new readers, which is what makes recursive read-locking dangerous.
type RWMutex struct {
	real      sync.RWMutex
	readers   int
	writer    *Thread
	announced int // writers that called Lock and wait for the readers to drain
}

func (rw *RWMutex) RLock() {
	if t := current(); t != nil {
		t.s.yield(t, &op{kind: opRLock, rw: rw})
		rw.real.RLock()
		return
	}
	rw.real.RLock()
}

func (rw *RWMutex) RUnlock() {
	if t := current(); t != nil {
		t.s.release(func() { rw.readers-- })
	}
	rw.real.RUnlock()
}

func (rw *RWMutex) Lock() {
	if t := current(); t != nil {
		t.s.yield(t, &op{kind: opWAnnounce, rw: rw})
		t.s.yield(t, &op{kind: opWLock, rw: rw})
		rw.real.Lock()
		return
	}
	rw.real.Lock()
}

func (rw *RWMutex) Unlock() {
	if t := current(); t != nil {
		t.s.release(func() { rw.writer = nil })
	}
	rw.real.Unlock()
}

func (rw *RWMutex) RLocker() Locker { return (*rlocker)(rw) }

type rlocker RWMutex

func (r *rlocker) Lock()   { (*RWMutex)(r).RLock() }
func (r *rlocker) Unlock() { (*RWMutex)(r).RUnlock() }

// WaitGroup mirrors sync.WaitGroup; Wait is a blocking scheduling point.
type WaitGroup struct {
	real sync.WaitGroup
	mu   sync.Mutex
	n    int
}

func (wg *WaitGroup) Add(delta int) {
	wg.mu.Lock()
	wg.n += delta
	wg.mu.Unlock()
	wg.real.Add(delta)
}

func (wg *WaitGroup) Done() { wg.Add(-1) }

func (wg *WaitGroup) Wait() {
	if t := current(); t != nil {
		t.s.yield(t, &op{kind: opWait, wg: wg})
	}
	wg.real.Wait()
}

func (wg *WaitGroup) count() int {
	wg.mu.Lock()
	defer wg.mu.Unlock()
	return wg.n
}

// Once mirrors sync.Once (the function runs while holding a model mutex).
type Once struct {
	m    Mutex
	done bool
}

func (o *Once) Do(f func()) {
	o.m.Lock()
	defer o.m.Unlock()
	if !o.done {
		defer func() { o.done = true }()
		f()
	}
}
