package vsync

import (
	"fmt"
	"runtime"
	"sync"
)

// ---- goroutine identity -----------------------------------------------------------------------

func goid() uint64 {
	var buf [64]byte
	n := runtime.Stack(buf[:], false)
	// "goroutine 123 [running]:..."
	var id uint64
	for i := len("goroutine "); i < n && buf[i] >= '0' && buf[i] <= '9'; i++ {
		id = id*10 + uint64(buf[i]-'0')
	}
	return id
}

var (
	regMu   sync.RWMutex
	threads = map[uint64]*Thread{} // goroutine id -> thread of the installed scheduler
)

// current returns the scheduler thread of the calling goroutine, or nil (pass-through).
func current() *Thread {
	regMu.RLock()
	if len(threads) == 0 {
		regMu.RUnlock()
		return nil
	}
	t := threads[goid()]
	regMu.RUnlock()
	if t != nil && t.s.aborting {
		// unwinding after a deadlock/livelock verdict: primitives fall back to the real ones
		return nil
	}
	return t
}

// CurrentThreadName is used by the seams to attribute nonces and time stamps to a thread.
func CurrentThreadName() string {
	regMu.RLock()
	defer regMu.RUnlock()
	if len(threads) == 0 {
		return ""
	}
	if t := threads[goid()]; t != nil {
		return t.Name
	}
	return ""
}

// ---- operations -------------------------------------------------------------------------------

type opKind int

const (
	opStart opKind = iota
	opMutexLock
	opRLock
	opWAnnounce
	opWLock
	opWait
	opAtomic
	opTry
	opIO
)

var opNames = []string{"start", "Mutex.Lock", "RWMutex.RLock", "RWMutex.Lock(announce)", "RWMutex.Lock(acquire)", "WaitGroup.Wait", "atomic", "TryLock", "file-op"}

type op struct {
	kind opKind
	mu   *Mutex
	rw   *RWMutex
	wg   *WaitGroup
	try  func()
	site string
}

func (o *op) enabled() bool {
	switch o.kind {
	case opMutexLock:
		return o.mu.owner == nil
	case opRLock:
		return o.rw.writer == nil && o.rw.announced == 0
	case opWLock:
		return o.rw.writer == nil && o.rw.readers == 0
	case opWait:
		return o.wg.count() <= 0
	}
	return true
}

func (o *op) apply(t *Thread) {
	switch o.kind {
	case opMutexLock:
		o.mu.owner = t
	case opRLock:
		o.rw.readers++
	case opWAnnounce:
		o.rw.announced++
	case opWLock:
		o.rw.announced--
		o.rw.writer = t
	case opTry:
		o.try()
	}
}

// ---- scheduler --------------------------------------------------------------------------------

// Thread is one harness thread of a controlled run.
type Thread struct {
	Name     string
	id       int
	s        *Sched
	gate     chan struct{}
	pending  *op
	finished bool
	Panic    any // non-nil if the body panicked (other than by the abort sentinel)
}

// Point is one recorded scheduling decision.
type Point struct {
	Enabled        []int  // thread ids in canonical order: the running thread first if enabled, then ascending
	Chosen         int    // index into Enabled
	RunningEnabled bool   // the thread that was running could have continued
	Op             string // pending operation of the chosen thread
	Site           string
}

// Verdict of one execution.
type Verdict struct {
	Points   []Point
	Choices  []int
	Deadlock bool
	Livelock bool
	Blocked  []string // on deadlock: who waits for what
	Diverged string   // replay prefix could not be followed
}

type abortSentinel struct{}

// Sched runs a fixed set of threads cooperatively along a prescribed choice prefix.
type Sched struct {
	mu       sync.Mutex
	threads  []*Thread
	running  *Thread
	prefix   []int
	verdict  Verdict
	horizon  int
	aborting bool
	done     chan struct{}
	sites    bool
}

// NewSched prepares a run that follows prefix and then always takes choice 0.
func NewSched(prefix []int, horizon int, recordSites bool) *Sched {
	return &Sched{prefix: prefix, horizon: horizon, done: make(chan struct{}), sites: recordSites}
}

// Go registers a thread; bodies start running when Run is called.
func (s *Sched) Go(name string, body func()) *Thread {
	t := &Thread{Name: name, id: len(s.threads), s: s, gate: make(chan struct{}, 1)}
	s.threads = append(s.threads, t)
	started := make(chan struct{})
	go func() {
		regMu.Lock()
		threads[goid()] = t
		regMu.Unlock()
		close(started)
		defer func() {
			if r := recover(); r != nil {
				if _, ok := r.(abortSentinel); !ok {
					t.Panic = r
					buf := make([]byte, 4096)
					buf = buf[:runtime.Stack(buf, false)]
					t.Panic = fmt.Sprintf("%v\n%s", r, buf)
				}
			}
			s.finish(t)
			regMu.Lock()
			delete(threads, goid())
			regMu.Unlock()
		}()
		<-t.gate // wait to be scheduled for the first time
		if s.aborting {
			panic(abortSentinel{})
		}
		body()
	}()
	<-started
	t.pending = &op{kind: opStart}
	return t
}

// Run executes the threads to completion (or to a deadlock/livelock verdict) and returns what
// happened. It must be called from a goroutine that is not a scheduler thread.
func (s *Sched) Run() Verdict {
	s.mu.Lock()
	next := s.choose(nil)
	s.mu.Unlock()
	if next != nil {
		next.gate <- struct{}{}
	} else {
		close(s.done)
	}
	<-s.done
	v := s.verdict
	return v
}

func site() string {
	// the first frame outside this package
	pc := make([]uintptr, 12)
	n := runtime.Callers(3, pc)
	frames := runtime.CallersFrames(pc[:n])
	for {
		f, more := frames.Next()
		if f.Function != "" && !contains(f.Function, "verifshim/") {
			return fmt.Sprintf("%s:%d", trimPath(f.File), f.Line)
		}
		if !more {
			return ""
		}
	}
}

func contains(s, sub string) bool {
	for i := 0; i+len(sub) <= len(s); i++ {
		if s[i:i+len(sub)] == sub {
			return true
		}
	}
	return false
}

func trimPath(p string) string {
	n := 0
	for i := len(p) - 1; i >= 0; i-- {
		if p[i] == '/' {
			n++
			if n == 2 {
				return p[i+1:]
			}
		}
	}
	return p
}

// choose picks the next thread to run according to the prefix / default policy and records the
// point. Caller holds s.mu. Returns nil when nobody can run (all finished, or deadlock).
func (s *Sched) choose(running *Thread) *Thread {
	var enabled []int
	runningEnabled := false
	if running != nil && !running.finished && running.pending != nil && running.pending.enabled() {
		enabled = append(enabled, running.id)
		runningEnabled = true
	}
	unfinished := 0
	for _, t := range s.threads {
		if t.finished {
			continue
		}
		unfinished++
		if t == running {
			continue
		}
		if t.pending != nil && t.pending.enabled() {
			enabled = append(enabled, t.id)
		}
	}
	if unfinished == 0 {
		return nil
	}
	if len(enabled) == 0 {
		s.verdict.Deadlock = true
		for _, t := range s.threads {
			if !t.finished && t.pending != nil {
				s.verdict.Blocked = append(s.verdict.Blocked, fmt.Sprintf("%s waits at %s %s", t.Name, opNames[t.pending.kind], t.pending.site))
			}
		}
		return nil
	}
	if len(s.verdict.Points) >= s.horizon {
		s.verdict.Livelock = true
		return nil
	}
	i := len(s.verdict.Points)
	c := 0
	if i < len(s.prefix) {
		c = s.prefix[i]
		if c >= len(enabled) {
			s.verdict.Diverged = fmt.Sprintf("point %d: prefix asks for choice %d of %d", i, c, len(enabled))
			c = 0
		}
	}
	t := s.threads[enabled[c]]
	s.verdict.Points = append(s.verdict.Points, Point{Enabled: enabled, Chosen: c, RunningEnabled: runningEnabled, Op: opNames[t.pending.kind], Site: t.pending.site})
	s.verdict.Choices = append(s.verdict.Choices, c)
	return t
}

// abort wakes every parked thread so that it unwinds (caller holds s.mu).
func (s *Sched) abort() {
	s.aborting = true
	for _, t := range s.threads {
		if !t.finished {
			select {
			case t.gate <- struct{}{}:
			default:
			}
		}
	}
}

// PointHook, when set, is called by the running thread at every scheduling point, before the next
// thread is chosen: no other thread runs meanwhile, so what is on disk at that instant is well
// defined (used to take crash images inside a schedule). It must not use the rewritten primitives.
var PointHook func(thread string)

// yield is called by the running thread t before it performs o.
func (s *Sched) yield(t *Thread, o *op) {
	if h := PointHook; h != nil {
		h(t.Name)
	}
	if s.sites {
		o.site = site()
	}
	s.mu.Lock()
	t.pending = o
	next := s.choose(t)
	if next == nil {
		// deadlock or livelock: unwind everybody
		s.abort()
		s.mu.Unlock()
		panic(abortSentinel{})
	}
	if next != t {
		s.running = next
		s.mu.Unlock()
		next.gate <- struct{}{}
		<-t.gate
		if s.aborting {
			panic(abortSentinel{})
		}
		s.mu.Lock()
	}
	s.running = t
	o.apply(t)
	t.pending = nil
	s.mu.Unlock()
}

// release updates model state for an unlock (not a scheduling point).
func (s *Sched) release(f func()) {
	s.mu.Lock()
	f()
	s.mu.Unlock()
}

// finish is called when a thread's body returned (or unwound).
func (s *Sched) finish(t *Thread) {
	s.mu.Lock()
	t.finished = true
	t.pending = nil
	all := true
	for _, x := range s.threads {
		if !x.finished {
			all = false
		}
	}
	if all {
		s.mu.Unlock()
		close(s.done)
		return
	}
	if s.aborting {
		s.mu.Unlock()
		return
	}
	next := s.choose(t)
	if next == nil {
		s.abort()
		s.mu.Unlock()
		return
	}
	s.running = next
	s.mu.Unlock()
	next.gate <- struct{}{}
}

// IOEnabled switches the file-system scheduling points on (set by the harness per scenario).
var IOEnabled bool

// IOPoint is the scheduling point of a local-storage file operation (always enabled).
func IOPoint() {
	if !IOEnabled {
		return
	}
	if t := current(); t != nil {
		t.s.yield(t, &op{kind: opIO})
	}
}

// IOFaultHook, when set, is consulted before every MUTATING local-storage file operation (create,
// open for writing, temp file, rename, remove) with the operation and the file name; a non-nil
// result is returned by the operation instead of performing it. Independent of the scheduler: used
// to make every file-system mutation of OpenGoGitRepo a crash point / a fail-stop point (C06).
var IOFaultHook func(op, name string) error

// IOFault is called by the local-storage file operations (shim/addfiles).
func IOFault(op, name string) error {
	if h := IOFaultHook; h != nil {
		return h(op, name)
	}
	return nil
}

// AtomicPoint is the scheduling point of an atomic operation (always enabled).
func AtomicPoint() {
	if t := current(); t != nil {
		t.s.yield(t, &op{kind: opAtomic})
	}
}

// Threads returns the registered threads (for reading Panic after Run).
func (s *Sched) Threads() []*Thread { return s.threads }
