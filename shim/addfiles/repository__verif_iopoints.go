// This file is ADDED to package repository by the -sync overlay (C18 build only). It gives the
// local-storage file system (clock files, cache files, lock file) scheduling points: under the
// controlled scheduler every file operation below is a point at which another thread may run,
// so races between an in-memory update and the file write that persists it are explored too.
// Outside a controlled run vsync.IOPoint does nothing. Mutating operations also consult
// vsync.IOFault (nil unless a harness installed a hook): crash images / injected errors at every
// file-system mutation of code that uses the local storage directly, such as OpenGoGitRepo.
package repository

import (
	"os"

	"github.com/go-git/go-billy/v5"

	"github.com/MichaelMure/git-bug/verifshim/vsync"
)

func (b billyLocalStorage) Create(filename string) (billy.File, error) {
	vsync.IOPoint()
	if err := vsync.IOFault("create", filename); err != nil {
		return nil, err
	}
	return b.Filesystem.Create(filename)
}

func (b billyLocalStorage) Open(filename string) (billy.File, error) {
	vsync.IOPoint()
	return b.Filesystem.Open(filename)
}

func (b billyLocalStorage) OpenFile(filename string, flag int, perm os.FileMode) (billy.File, error) {
	vsync.IOPoint()
	if flag&(os.O_WRONLY|os.O_RDWR|os.O_CREATE|os.O_TRUNC|os.O_APPEND) != 0 {
		if err := vsync.IOFault("openfile", filename); err != nil {
			return nil, err
		}
	}
	return b.Filesystem.OpenFile(filename, flag, perm)
}

func (b billyLocalStorage) Rename(oldpath, newpath string) error {
	vsync.IOPoint()
	if err := vsync.IOFault("rename", newpath); err != nil {
		return err
	}
	return b.Filesystem.Rename(oldpath, newpath)
}

func (b billyLocalStorage) Remove(filename string) error {
	vsync.IOPoint()
	if err := vsync.IOFault("remove", filename); err != nil {
		return err
	}
	return b.Filesystem.Remove(filename)
}

func (b billyLocalStorage) TempFile(dir, prefix string) (billy.File, error) {
	vsync.IOPoint()
	if err := vsync.IOFault("tempfile", prefix); err != nil {
		return nil, err
	}
	return b.Filesystem.TempFile(dir, prefix)
}
