// This file is ADDED to package repository by the -sync overlay (C18 build only). It gives the
// local-storage file system (clock files, cache files, lock file) scheduling points: under the
// controlled scheduler every file operation below is a point at which another thread may run,
// so races between an in-memory update and the file write that persists it are explored too.
// Outside a controlled run vsync.IOPoint does nothing.
package repository

import (
	"os"

	"github.com/go-git/go-billy/v5"

	"github.com/MichaelMure/git-bug/verifshim/vsync"
)

func (b billyLocalStorage) Create(filename string) (billy.File, error) {
	vsync.IOPoint()
	return b.Filesystem.Create(filename)
}

func (b billyLocalStorage) Open(filename string) (billy.File, error) {
	vsync.IOPoint()
	return b.Filesystem.Open(filename)
}

func (b billyLocalStorage) OpenFile(filename string, flag int, perm os.FileMode) (billy.File, error) {
	vsync.IOPoint()
	return b.Filesystem.OpenFile(filename, flag, perm)
}

func (b billyLocalStorage) Rename(oldpath, newpath string) error {
	vsync.IOPoint()
	return b.Filesystem.Rename(oldpath, newpath)
}

func (b billyLocalStorage) Remove(filename string) error {
	vsync.IOPoint()
	return b.Filesystem.Remove(filename)
}

func (b billyLocalStorage) TempFile(dir, prefix string) (billy.File, error) {
	vsync.IOPoint()
	return b.Filesystem.TempFile(dir, prefix)
}
