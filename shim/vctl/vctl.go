// Package vctl holds the harness-controlled state of the verification seams
// (current actor, per-actor nonce and time counters). With Active == false all
// seams delegate to the real sources.
package vctl

import (
	"crypto/sha256"
	"encoding/binary"
	"sort"
	"sync"
	"time"
)

var (
	mu     sync.Mutex
	active bool
	seed   uint64
	actor  = "main"
	// actorOf, when set, maps the calling goroutine to an actor (scheduler engine).
	actorOf func() string

	randCtr = map[string]uint64{}
	timeCtr = map[string]uint64{}

	// TimeMode: 0 = every call of an actor advances its logical time by one second,
	// 1 = all calls return the same instant (forces equal commit timestamps).
	timeMode int
	// fixed, when non-zero, is returned by Now regardless of mode (bridge checks drive time explicitly).
	fixed time.Time
)

var epoch = time.Date(2021, 1, 1, 0, 0, 0, 0, time.UTC)

// Activate switches the seams to deterministic mode and resets all counters.
func Activate(s uint64, mode int) {
	mu.Lock()
	defer mu.Unlock()
	active = true
	seed = s
	timeMode = mode
	actor = "main"
	randCtr = map[string]uint64{}
	timeCtr = map[string]uint64{}
	fixed = time.Time{}
}

// Deactivate returns to pass-through mode.
func Deactivate() {
	mu.Lock()
	defer mu.Unlock()
	active = false
}

func Active() bool {
	mu.Lock()
	defer mu.Unlock()
	return active
}

// SetActor selects whose counters the next seam calls use.
func SetActor(a string) {
	mu.Lock()
	defer mu.Unlock()
	actor = a
}

// SetActorFunc installs a goroutine->actor mapping (nil to remove).
func SetActorFunc(f func() string) {
	mu.Lock()
	defer mu.Unlock()
	actorOf = f
}

// SetFixedNow pins vtime.Now to t (zero value: back to counters).
func SetFixedNow(t time.Time) {
	mu.Lock()
	defer mu.Unlock()
	fixed = t
}

func cur() string {
	if actorOf != nil {
		if a := actorOf(); a != "" {
			return a
		}
	}
	return actor
}

// Counters returns a canonical rendering of all per-actor counters (part of state keys).
func Counters() []string {
	mu.Lock()
	defer mu.Unlock()
	var out []string
	for a, c := range randCtr {
		out = append(out, "rand/"+a+"="+itoa(c))
	}
	for a, c := range timeCtr {
		out = append(out, "time/"+a+"="+itoa(c))
	}
	sort.Strings(out)
	return out
}

// SetCounters restores counters (used when a state is restored from a snapshot).
func SetCounters(r, t map[string]uint64) {
	mu.Lock()
	defer mu.Unlock()
	randCtr = map[string]uint64{}
	timeCtr = map[string]uint64{}
	for k, v := range r {
		randCtr[k] = v
	}
	for k, v := range t {
		timeCtr[k] = v
	}
}

// RawCounters returns copies of the counter maps.
func RawCounters() (map[string]uint64, map[string]uint64) {
	mu.Lock()
	defer mu.Unlock()
	r := map[string]uint64{}
	t := map[string]uint64{}
	for k, v := range randCtr {
		r[k] = v
	}
	for k, v := range timeCtr {
		t[k] = v
	}
	return r, t
}

func itoa(v uint64) string {
	if v == 0 {
		return "0"
	}
	var b [20]byte
	i := len(b)
	for v > 0 {
		i--
		b[i] = byte('0' + v%10)
		v /= 10
	}
	return string(b[i:])
}

// RandRead fills b deterministically when active; reports false when the real source must be used.
func RandRead(b []byte) bool {
	mu.Lock()
	defer mu.Unlock()
	if !active {
		return false
	}
	a := cur()
	c := randCtr[a]
	randCtr[a] = c + 1
	var hdr [16]byte
	binary.BigEndian.PutUint64(hdr[:8], seed)
	binary.BigEndian.PutUint64(hdr[8:], c)
	off := 0
	for blk := uint64(0); off < len(b); blk++ {
		h := sha256.New()
		h.Write(hdr[:])
		h.Write([]byte(a))
		var bb [8]byte
		binary.BigEndian.PutUint64(bb[:], blk)
		h.Write(bb[:])
		off += copy(b[off:], h.Sum(nil))
	}
	return true
}

// Now returns the logical time when active; ok == false means use the real clock.
func Now() (time.Time, bool) {
	mu.Lock()
	defer mu.Unlock()
	if !active {
		return time.Time{}, false
	}
	if !fixed.IsZero() {
		return fixed, true
	}
	a := cur()
	c := timeCtr[a]
	timeCtr[a] = c + 1
	if timeMode == 1 {
		return epoch, true
	}
	return epoch.Add(time.Duration(c) * time.Second), true
}
