// Package vatomic stands in for sync/atomic in the rewritten packages: every operation is a
// scheduling point of the controlled scheduler (and the real atomic operation otherwise).
package vatomic

import (
	"sync/atomic"

	"github.com/MichaelMure/git-bug/verifshim/vsync"
)

func LoadUint64(addr *uint64) uint64 { vsync.AtomicPoint(); return atomic.LoadUint64(addr) }
func AddUint64(addr *uint64, delta uint64) uint64 {
	vsync.AtomicPoint()
	return atomic.AddUint64(addr, delta)
}
func StoreUint64(addr *uint64, v uint64) { vsync.AtomicPoint(); atomic.StoreUint64(addr, v) }
func CompareAndSwapUint64(addr *uint64, o, n uint64) bool {
	vsync.AtomicPoint()
	return atomic.CompareAndSwapUint64(addr, o, n)
}
func LoadInt64(addr *int64) int64               { vsync.AtomicPoint(); return atomic.LoadInt64(addr) }
func AddInt64(addr *int64, delta int64) int64   { vsync.AtomicPoint(); return atomic.AddInt64(addr, delta) }
func StoreInt64(addr *int64, v int64)           { vsync.AtomicPoint(); atomic.StoreInt64(addr, v) }
func LoadInt32(addr *int32) int32               { vsync.AtomicPoint(); return atomic.LoadInt32(addr) }
func AddInt32(addr *int32, delta int32) int32   { vsync.AtomicPoint(); return atomic.AddInt32(addr, delta) }
func StoreInt32(addr *int32, v int32)           { vsync.AtomicPoint(); atomic.StoreInt32(addr, v) }
func CompareAndSwapInt32(addr *int32, o, n int32) bool {
	vsync.AtomicPoint()
	return atomic.CompareAndSwapInt32(addr, o, n)
}
