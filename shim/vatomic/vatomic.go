// Package vatomic stands in for sync/atomic.
package vatomic

import "sync/atomic"

func LoadUint64(addr *uint64) uint64                      { return atomic.LoadUint64(addr) }
func AddUint64(addr *uint64, delta uint64) uint64         { return atomic.AddUint64(addr, delta) }
func StoreUint64(addr *uint64, v uint64)                  { atomic.StoreUint64(addr, v) }
func CompareAndSwapUint64(addr *uint64, o, n uint64) bool { return atomic.CompareAndSwapUint64(addr, o, n) }
